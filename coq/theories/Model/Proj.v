(* Static description of a lemoncheesecake project as the runner sees it after loading (DESIGN.md 4.1):
   fixtures (FixtureRegistry, insertion order), suite trees (suite/core.py Suite, Test) and run options.
   Identifiers are natural numbers: content of names is irrelevant to scheduling and validation, only equality matters.
   User code (test bodies, hooks, fixture setups/teardowns, thread targets) is a *script*: a finite list of API actions,
   so that "for all placements and kinds of failure" is universal quantification over scripts.
   Shared by Graph/Sched/Exec (C01-C08, C10, C11) and by the validation model (C14). No proofs in this file. *)
From Coq Require Import List Arith Bool.
Import ListNotations.

Definition name := nat.
(* reserved names *)
Definition n_fixture_name : name := 0.    (* the pseudo parameter "fixture_name" (_FORBIDDEN_FIXTURE_NAMES) *)
Definition n_cli_args : name := 1.        (* BuiltinFixture("cli_args") *)
Definition n_project_dir : name := 2.     (* BuiltinFixture("project_dir") *)

Definition path := list name.             (* suite names from the top, then the test name *)

Inductive scope := ScTest | ScSuite | ScSession | ScPreRun.
Definition scope_level (s : scope) : nat :=          (* fixture._SCOPE_LEVELS *)
  match s with ScTest => 1 | ScSuite => 2 | ScSession => 3 | ScPreRun => 4 end.
Definition scope_eqb (a b : scope) : bool := Nat.eqb (scope_level a) (scope_level b).

(* ---------------- user code ---------------- *)
Inductive raise_kind :=
| ExcException          (* any Exception subclass that is not one of the three below *)
| ExcAbortTest | ExcAbortSuite | ExcAbortAllTests
| ExcUserError
| ExcBase.              (* BaseException that is not an Exception: SystemExit, KeyboardInterrupt raised by user code *)

Inductive action :=
| ALog (level : nat) (payload : nat)       (* level: 0 debug, 1 info, 2 warn, 3 error ; log_debug/info/warning/error *)
| ACheck (ok : bool) (payload : nat)       (* a check_that whose matcher result is ok *)
| AUrl (payload : nat)                     (* log_url *)
| AAttach (payload : nat)                  (* save_attachment_content *)
| ASetStep (payload : nat)                 (* set_step *)
| AMark (id : nat)                         (* user-visible trace record; a yield point of the deterministic scheduler *)
| AUse (fx : name)                         (* record the value received for fixture argument fx *)
| ASpawn (body : list action)              (* lcc.Thread(target=body).start() *)
| AJoin                                    (* join every thread spawned so far by this script *)
| ARaise (k : raise_kind).                 (* execution of the script stops here *)
Definition script := list action.

(* ---------------- fixtures ---------------- *)
Record fixture := mkFixture {
  fx_name : name;
  fx_scope : scope;
  fx_params : list name;        (* argument names of the fixture function, may contain n_fixture_name *)
  fx_per_thread : bool;
  fx_builtin : bool;            (* BuiltinFixture: scope pre_run, no params, never raises *)
  fx_generator : bool;          (* the function yields: fx_teardown is the code after the yield *)
  fx_setup : script;
  fx_teardown : script }.

(* ---------------- tests and suites ---------------- *)
Record test := mkTest {
  tt_name : name;
  tt_disabled : bool;           (* the test's own `disabled` attribute (a reason string counts as true) *)
  tt_deps : list path;          (* depends_on, path form *)
  tt_args : list name;          (* argument names of the test callback *)
  tt_params : list name;        (* names bound by @parametrized (subset of tt_args) *)
  tt_body : script }.

Record hooks := mkHooks {
  h_setup_suite : option (list name * script);   (* argument names (fixtures), code *)
  h_teardown_suite : option script;
  h_setup_test : option script;
  h_teardown_test : option script }.

Inductive suite :=
| Suite (s_name : name) (s_disabled : bool) (s_hooks : hooks) (s_injected : list name)
        (s_tests : list test)          (* in get_tests() order *)
        (s_subs : list suite).         (* in get_suites() order *)

Definition su_name (s : suite) := match s with Suite n _ _ _ _ _ => n end.
Definition su_disabled (s : suite) := match s with Suite _ d _ _ _ _ => d end.
Definition su_hooks (s : suite) := match s with Suite _ _ h _ _ _ => h end.
Definition su_injected (s : suite) := match s with Suite _ _ _ i _ _ => i end.
Definition su_tests (s : suite) := match s with Suite _ _ _ _ t _ => t end.
Definition su_subs (s : suite) := match s with Suite _ _ _ _ _ u => u end.

Record options := mkOptions {
  o_force_disabled : bool;
  o_stop_on_failure : bool;
  o_nb_threads : nat }.

Record project := mkProject {
  p_fixtures : list fixture;     (* project.load_fixtures(), in order; builtins are added by the registry *)
  p_all_suites : list suite;     (* project.load_suites() *)
  p_suites : list suite }.       (* the scheduled suites (after filtering); = p_all_suites without a filter *)

(* ---------------- helpers ---------------- *)
Definition name_mem (x : name) (l : list name) : bool := existsb (Nat.eqb x) l.
Definition path_eqb (a b : path) : bool :=
  (fix go a b := match a, b with [] , [] => true | x :: a', y :: b' => Nat.eqb x y && go a' b' | _, _ => false end) a b.

(* Test.get_fixtures: arguments that are not parameters *)
Definition test_fixtures (t : test) : list name := filter (fun a => negb (name_mem a (tt_params t))) (tt_args t).

(* OrderedSet as duplicate-free list with first-insertion order *)
Definition oset_add (x : name) (s : list name) : list name := if name_mem x s then s else s ++ [x].
Definition oset_update (s xs : list name) : list name := fold_left (fun acc x => oset_add x acc) xs s.

(* Suite.get_fixtures: injected fixture names, then the arguments of setup_suite *)
Definition suite_fixtures (s : suite) : list name :=
  oset_update (oset_update [] (su_injected s))
              (match h_setup_suite (su_hooks s) with Some (args, _) => args | None => [] end).

(* tests of a forest with their paths and inherited disabled flag (flatten_tests, _is_node_disabled) *)
Fixpoint suite_tests_with_path (prefix : path) (inh_disabled : bool) (s : suite) : list (path * bool * test) :=
  match s with
  | Suite n d _ _ ts subs =>
      let p := prefix ++ [n] in
      let dis := inh_disabled || d in
      map (fun t => (p ++ [tt_name t], dis || tt_disabled t, t)) ts ++
      flat_map (suite_tests_with_path p dis) subs
  end.
Definition all_tests_with_path (l : list suite) : list (path * bool * test) :=
  flat_map (suite_tests_with_path [] false) l.
