(* The prefix order on reports of DESIGN.md Appendix A.2 (`le_report`), on the report NORMAL FORM of Model/Report.v, as a Prop
   and as an executable boolean (`le_report_b`; sound for the Prop: Proofs/PrefixP.v `le_report_b_sound`, complete when sibling
   names are pairwise distinct).  No proofs in this file.

   A.2                                                         here
   ----------------------------------------------------------- ---------------------------------------------------------------
   le_log is equality                                          (logs are compared with `=` / steplog_eqb)
   le_step a b: same description and start; logs a prefix of   le_step : st_description, st_start equal; list_prefix (st_logs a) (st_logs b);
     logs b; a has an end time => a = b                          st_end a <> None -> a = b
   le_result a b: same start; steps a pointwise le_step the    le_result : r_start equal; lep le_step (r_steps a) (r_steps b) (pointwise on the first
     first |steps a| steps of b; finished a => a = b             |steps a| steps of b, b may have more); r_end a <> None -> a = b
   le_suite a b: same metadata and start; every test/sub-suite le_suite : meta, start equal; emb le_test / emb le_suite on the children (order-preserving
     of a occurs in b (by name) and is le; setup/teardown le     embedding: a child of a is matched with a child of b carrying the same metadata, hence the
     when present in a; relative order of the common children    same name, later arrivals may sit in between); le_oresult on setup / teardown
     is the same; a ended => a = b                               (None is below everything); s_end a <> None -> a = b
   le_report lifts this to the top                             le_report : title, info, nb_threads equal; start: None or equal (the first event sets it);
                                                                 le_oresult on session setup / teardown; emb le_suite; rp_end a <> None -> a = b up to
                                                                 rp_saving.  rp_saving (report.saving_time) is NOT compared: it is stamped by the serializer at
                                                                 every save and is not part of what a run reports. *)
From Coq Require Import List NArith ZArith Bool.
Import ListNotations.
From LCC Require Import Base.Util Model.Report Model.Events.

(* ---------------- list relations ---------------- *)
(* l is a prefix of l' *)
Definition list_prefix {A} (l l' : list A) : Prop := exists r, l' = l ++ r.

(* pointwise R on the first |l| elements of l' *)
Inductive lep {A} (R : A -> A -> Prop) : list A -> list A -> Prop :=
| lep_nil : forall l', lep R [] l'
| lep_cons : forall a b l l', R a b -> lep R l l' -> lep R (a :: l) (b :: l').

(* order-preserving embedding: every element of l is matched (R) with an element of l', in the same relative order *)
Inductive emb {A} (R : A -> A -> Prop) : list A -> list A -> Prop :=
| emb_nil : forall l', emb R [] l'
| emb_match : forall a b l l', R a b -> emb R l l' -> emb R (a :: l) (b :: l')
| emb_skip : forall l b l', emb R l l' -> emb R l (b :: l').

(* ---------------- the order (Prop) ---------------- *)
Definition le_step (a b : step) : Prop :=
  st_description a = st_description b /\ st_start a = st_start b /\ list_prefix (st_logs a) (st_logs b)
  /\ (st_end a <> None -> a = b).

Definition le_result (a b : result) : Prop :=
  r_start a = r_start b /\ lep le_step (r_steps a) (r_steps b) /\ (r_end a <> None -> a = b).

Definition le_oresult (a b : option result) : Prop :=
  match a, b with
  | None, _ => True
  | Some x, Some y => le_result x y
  | Some _, None => False
  end.

Definition le_test (a b : test_result) : Prop := t_meta a = t_meta b /\ le_result (t_result a) (t_result b).

Inductive le_suite : suite_result -> suite_result -> Prop :=
| LeSuite : forall m st e e' su su' td td' ts ts' us us',
    le_oresult su su' -> le_oresult td td' -> emb le_test ts ts' -> emb le_suite us us' ->
    (e <> None -> SuiteResult m st e su td ts us = SuiteResult m st e' su' td' ts' us') ->
    le_suite (SuiteResult m st e su td ts us) (SuiteResult m st e' su' td' ts' us').

(* the first event of a session sets the start time *)
Definition le_otime (a b : option Z) : Prop := a = None \/ a = b.

Definition set_saving (r : report) (s : option Z) : report :=
  mkReport (rp_title r) (rp_info r) (rp_start r) (rp_end r) s (rp_nb_threads r) (rp_session_setup r) (rp_session_teardown r)
           (rp_suites r).

Definition le_report (a b : report) : Prop :=
  rp_title a = rp_title b /\ rp_info a = rp_info b /\ rp_nb_threads a = rp_nb_threads b /\ le_otime (rp_start a) (rp_start b)
  /\ le_oresult (rp_session_setup a) (rp_session_setup b) /\ le_oresult (rp_session_teardown a) (rp_session_teardown b)
  /\ emb le_suite (rp_suites a) (rp_suites b)
  /\ (rp_end a <> None -> set_saving a None = set_saving b None).

(* what "items shown as finished never change afterwards" means, item by item: a finished step / result / test / suite of `a`
   that le_* relates to an item of `b` is that item (immediate from the last clause of each definition; stated as lemmas
   in Proofs/PrefixP.v: le_step_finished, le_result_finished, le_suite_finished, le_report_finished). *)

(* ---------------- executable version ---------------- *)
Definition is_some {A} (o : option A) : bool := match o with Some _ => true | None => false end.

Fixpoint list_prefix_b {A} (eqb : A -> A -> bool) (l l' : list A) : bool :=
  match l, l' with
  | [], _ => true
  | a :: r, b :: r' => eqb a b && list_prefix_b eqb r r'
  | _ :: _, [] => false
  end.

Fixpoint lep_b {A} (leb : A -> A -> bool) (l l' : list A) : bool :=
  match l, l' with
  | [], _ => true
  | a :: r, b :: r' => leb a b && lep_b leb r r'
  | _ :: _, [] => false
  end.

(* first element of l' whose key is n, with what follows it *)
Fixpoint find_after {A} (key : A -> str) (n : str) (l' : list A) : option (A * list A) :=
  match l' with
  | [] => None
  | b :: r' => if str_eqb (key b) n then Some (b, r') else find_after key n r'
  end.

(* greedy matching by key (the name): exact when the keys of l' are pairwise distinct, sound for `emb` always *)
Definition emb_b {A} (key : A -> str) (leb : A -> A -> bool) : list A -> list A -> bool :=
  fix go (l l' : list A) {struct l} : bool :=
    match l with
    | [] => true
    | a :: r => match find_after key (key a) l' with
                | None => false
                | Some (b, r') => leb a b && go r r'
                end
    end.

Definition le_step_b (a b : step) : bool :=
  str_eqb (st_description a) (st_description b) && oZ_eqb (st_start a) (st_start b)
  && list_prefix_b steplog_eqb (st_logs a) (st_logs b)
  && (if is_some (st_end a) then step_eqb a b else true).

Definition le_result_b (a b : result) : bool :=
  oZ_eqb (r_start a) (r_start b) && lep_b le_step_b (r_steps a) (r_steps b)
  && (if is_some (r_end a) then result_eqb a b else true).

Definition le_oresult_b (a b : option result) : bool :=
  match a, b with
  | None, _ => true
  | Some x, Some y => le_result_b x y
  | Some _, None => false
  end.

Definition le_test_b (a b : test_result) : bool := meta_eqb (t_meta a) (t_meta b) && le_result_b (t_result a) (t_result b).

Definition test_name (t : test_result) : str := m_name (t_meta t).
Definition suite_name (s : suite_result) : str := m_name (s_meta_of s).

Fixpoint le_suite_b (a b : suite_result) {struct a} : bool :=
  match a, b with
  | SuiteResult m st e su td ts us, SuiteResult m' st' e' su' td' ts' us' =>
      meta_eqb m m' && oZ_eqb st st' && le_oresult_b su su' && le_oresult_b td td'
      && emb_b test_name le_test_b ts ts'
      && emb_b suite_name le_suite_b us us'
      && (if is_some e then suite_eqb a b else true)
  end.

Definition le_otime_b (a b : option Z) : bool := match a with None => true | Some _ => oZ_eqb a b end.

Definition le_report_b (a b : report) : bool :=
  str_eqb (rp_title a) (rp_title b) && list_eqb (pair_eqb str_eqb str_eqb) (rp_info a) (rp_info b)
  && Z.eqb (rp_nb_threads a) (rp_nb_threads b) && le_otime_b (rp_start a) (rp_start b)
  && le_oresult_b (rp_session_setup a) (rp_session_setup b) && le_oresult_b (rp_session_teardown a) (rp_session_teardown b)
  && emb_b suite_name le_suite_b (rp_suites a) (rp_suites b)
  && (if is_some (rp_end a) then report_eqb (set_saving a None) (set_saving b None) else true).

(* sibling names pairwise distinct, at every level (what a report built by a run satisfies: the writer refuses duplicates, Writer.v):
   under this hypothesis on the LATER report the greedy matching of emb_b is complete (Proofs/PrefixP.v le_report_b_complete) *)
Fixpoint unique_names_suite (s : suite_result) : Prop :=
  match s with
  | SuiteResult _ _ _ _ _ ts us =>
      NoDup (map test_name ts) /\ NoDup (map suite_name us)
      /\ (fix all (l : list suite_result) : Prop := match l with [] => True | x :: r => unique_names_suite x /\ all r end) us
  end.
Definition unique_names (r : report) : Prop :=
  NoDup (map suite_name (rp_suites r)) /\ Forall unique_names_suite (rp_suites r).
