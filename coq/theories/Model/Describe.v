(* Model of the description side of lemoncheesecake/matching: MatcherDescriptionTransformer and every build_description.

   The transformer is a mutable Python object that build_description receives and may pass on to sub-matchers: here it is
   a state threaded through the builder,  describe_st ni cw : matcher -> transf -> str * transf  (description, transformer after).
   A sub-matcher that is given a *new* transformer object (MatcherDescriptionTransformer(conjugate=True), or the one the
   NotFresh variant of Not creates) cannot affect its parent's: its final state is dropped.

   Python                                              | here
   ----------------------------------------------------+------------------------------------------------------------
   MatcherDescriptionTransformer(conjugate, negative)  | transf {| t_conj; t_neg |}
   MatcherDescriptionTransformer.__call__(description) | transform t d     (CONJUGATION_FORMS: ^(literal) = literal prefix;
                                                       |                    regular verbs: ^to (\w+), \w = ASCII word character)
   "...%s..." % args                                   | fill tpl args     (templates from gen/TablesMatchers.v)
   X.build_description(transformation)                 | describe_st ni cw X t
   Not.build_description                               | NotMutates: negative := True on the shared object
                                                       | NotFresh:   new transformer, negation flipped   (ni : not_impl)
   AllOf / AnyOf.build_description                     | composite ... (rel_all cw t) / (rel_any cw t): the relationship word is chosen
                                                       | from the transformer as it is on entry   (cw : comp_impl)
                                                       | comp_of_source: the four words as they are in the source now (F9b repaired:
                                                       | `"or" if transformation.negative else "and"` and dually);
                                                       | comp_pre_f9b: the pre-F9b code, one word whatever the transformer
   _is_composite (F23)                                 | composite_operand cw: is_composite_through when cw_see_through cw (looks through
                                                       | Not and through a wrapper that keeps the description), else is_composite (the
                                                       | isinstance test on the operand object: comp_pre_f23, comp_pre_f9b)
   _build_single_line_description_if_suitable          | inside composite  (`if description:` = non-empty string)
   _build_multi_line_description / _make_item          | multi_line / make_item
   operations._log_match_result (description part)     | log_description
   `if self.value_matcher:` / `if description:`        | is Some / is non-empty
   The wording strings, the 100 limit and the layout strings come from gen/TablesMatchers.v (read off the source).
   Restrictions: the text given to override_description is ASCII; IsBetween bounds are ints (str(int)).
   No proofs in this file. *)
From Coq Require Import List Bool NArith ZArith Arith.
Import ListNotations.
From LCC Require Import Base.Util Model.PyVal Model.Matcher gen.TablesMatchers.

Record transf := { t_conj : bool; t_neg : bool }.

Definition transf_eqb (a b : transf) : bool := Bool.eqb (t_conj a) (t_conj b) && Bool.eqb (t_neg a) (t_neg b).

Definition fresh : transf := {| t_conj := false; t_neg := false |}.          (* MatcherDescriptionTransformer() *)
Definition conjugated : transf := {| t_conj := true; t_neg := false |}.      (* MatcherDescriptionTransformer(conjugate=True) *)
Definition set_negative (t : transf) : transf := {| t_conj := t_conj t; t_neg := true |}.
Definition flip (t : transf) : transf := {| t_conj := t_conj t; t_neg := negb (t_neg t) |}.

(* How all_of / any_of build their description: the relationship word under a positive / negative transformer, and whether the
   "an operand is itself a composite" test of the single-line layout looks through Not and description-less wrappers.
   comp_of_source is read off the source (gen/TablesMatchers.v): with fixes/F09b-*.patch the negative word of all_of is "or" and
   that of any_of is "and" (De Morgan); a source with a single word per composite yields cw_all_neg = cw_all, cw_any_neg = cw_any;
   with fixes/F23-*.patch the test is composites._is_composite (cw_see_through = true).
   Labelled pre-fix variants, whatever the source says:
   comp_pre_f9b: the word does not depend on the transformer, the test is the isinstance test on the operand object;
   comp_pre_f23: De Morgan words, still the isinstance test on the operand object. *)
Record comp_impl := { cw_all : str; cw_all_neg : str; cw_any : str; cw_any_neg : str; cw_see_through : bool }.
Definition comp_of_source : comp_impl :=
  {| cw_all := rel_and; cw_all_neg := rel_all_neg; cw_any := rel_or; cw_any_neg := rel_any_neg;
     cw_see_through := single_line_sees_through_of_source |}.
Definition comp_pre_f9b : comp_impl :=
  {| cw_all := rel_and; cw_all_neg := rel_and; cw_any := rel_or; cw_any_neg := rel_or; cw_see_through := false |}.
Definition comp_pre_f23 : comp_impl :=
  {| cw_all := rel_and; cw_all_neg := rel_or; cw_any := rel_or; cw_any_neg := rel_and; cw_see_through := false |}.
Definition rel_all (cw : comp_impl) (t : transf) : str := if t_neg t then cw_all_neg cw else cw_all cw.
Definition rel_any (cw : comp_impl) (t : transf) : str := if t_neg t then cw_any_neg cw else cw_any cw.

(* Some rest when s = p ++ rest *)
Fixpoint strip_prefix (p s : str) : option str :=
  match p, s with
  | [], _ => Some s
  | x :: p', y :: s' => if N.eqb x y then strip_prefix p' s' else None
  | _ :: _, [] => None
  end.

Definition is_word (c : N) : bool :=
  (N.leb 97 c && N.leb c 122) || (N.leb 65 c && N.leb c 90) || (N.leb 48 c && N.leb c 57) || N.eqb c 95.

(* the longest prefix of word characters, and the rest *)
Fixpoint span_word (s : str) : str * str :=
  match s with
  | [] => ([], [])
  | c :: r => if is_word c then let '(w, rest) := span_word r in (c :: w, rest) else ([], s)
  end.

Definition pick_form (t : transf) (forms : str * str * str) : str :=
  let '(c, cn, inf_neg) := forms in
  if t_conj t && t_neg t then cn else if t_conj t then c else inf_neg.

Fixpoint try_forms (t : transf) (table : list (str * (str * str * str))) (d : str) : option str :=
  match table with
  | [] => None
  | (pat, forms) :: r => match strip_prefix pat d with
                         | Some rest => Some (pick_form t forms ++ rest)
                         | None => try_forms t r d
                         end
  end.

Definition try_regular (t : transf) (d : str) : option str :=
  match strip_prefix reg_prefix d with
  | None => None
  | Some after => let '(verb, rest) := span_word after in
                  match verb with
                  | [] => None
                  | _ => Some ((if t_conj t && t_neg t then reg_conj_neg_prefix ++ verb
                                else if t_conj t then verb ++ reg_conj_suffix
                                else reg_neg_prefix ++ verb) ++ rest)
                  end
  end.

Definition transform (t : transf) (d : str) : str :=
  if negb (t_conj t) && negb (t_neg t) then d
  else match try_forms t conjugation_forms d with
       | Some r => r
       | None => match try_regular t d with Some r => r | None => d end
       end.

(* tpl = [p0; p1; ...; pn], args = [a1; ...; an]  ->  p0 a1 p1 ... an pn *)
Fixpoint fill (tpl : list str) (args : list str) : str :=
  match tpl with
  | [] => []
  | p :: tpl' => match args with
                 | [] => p
                 | a :: args' => p ++ a ++ fill tpl' args'
                 end
  end.

Definition nl : N := 10%N.

Fixpoint split_lines_aux (s cur : str) : list str :=
  match s with
  | [] => [rev cur]
  | c :: r => if N.eqb c nl then rev cur :: split_lines_aux r [] else split_lines_aux r (c :: cur)
  end.
Definition split_lines (s : str) : list str := split_lines_aux s [].   (* s.split("\n") *)

Definition has_newline (s : str) : bool := existsb (N.eqb nl) s.

(* _make_item(content, prefix) *)
Definition make_item (content prefix : str) : str :=
  match split_lines content with
  | [] => []
  | first :: others => join [nl] ((item_indent_first ++ prefix ++ first) :: map (fun l => item_indent_next ++ l) others)
  end.

Fixpoint make_items (rel : str) (descs : list str) (i : nat) : list str :=
  match descs with
  | [] => []
  | d :: r => make_item d (match i with O => ml_prefix_first | S _ => fill ml_prefix_rel [rel] end) :: make_items rel r (S i)
  end.

Definition multi_line (rel : str) (descs : list str) : str := join [nl] (ml_head :: make_items rel descs 0).

Definition is_composite (m : matcher) : bool := match m with AllOf _ | AnyOf _ => true | _ => false end.

(* composites._is_composite: a negated composite, or a composite behind a wrapper that keeps its description, is still worded
   as a composite  (`matcher.description is NotImplemented` = the model's descr None) *)
Fixpoint is_composite_through (m : matcher) : bool :=
  match m with
  | AllOf _ | AnyOf _ => true
  | Not m' => is_composite_through m'
  | Wrapper m' None _ => is_composite_through m'
  | _ => false
  end.

Definition composite_operand (cw : comp_impl) (m : matcher) : bool :=
  if cw_see_through cw then is_composite_through m else is_composite m.

(* _build_composite_description: `descs` builds the descriptions of the operands with the shared transformer, in order *)
Definition composite (cw : comp_impl) (descs : list matcher -> transf -> list str * transf) (ms : list matcher) (rel : str) (t : transf)
  : str * transf :=
  let multi (t0 : transf) := let '(ds, t1) := descs ms t0 in (multi_line rel ds, t1) in
  if existsb (composite_operand cw) ms then multi t
  else
    let '(ds, t1) := descs ms t in
    if existsb has_newline ds then multi t1
    else
      let d := join (fill sl_join_format [rel]) ds in
      if Nat.ltb sl_limit (List.length d) then multi t1
      else match d with [] => multi t1 | _ => (d, t1) end.

Definition cmp_wording (c : cmp_kind) : str :=
  match c with
  | CNe => cmp_ne | CCmp Gt => cmp_gt | CCmp Ge => cmp_ge | CCmp Lt => cmp_lt | CCmp Le => cmp_le
  end.

Definition type_wording (t : tyname) : str :=
  match t with TyInt => ty_int | TyBool => ty_bool | TyStr => ty_str | TyDict => ty_dict | TyList => ty_list end.

Definition any_wording (w : anyw) : str :=
  match w with WAnything => w_anything | WSomething => w_something | WExist => w_exist | WPresent => w_present end.

Definition jsonify_items_t (l : list pyval) : str := join items_sep (map jsonify l).

Fixpoint describe_st (ni : not_impl) (cw : comp_impl) (m : matcher) (t : transf) {struct m} : str * transf :=
  match m with
  | EqualTo e => (transform t (fill tpl_equal_to [jsonify e]), t)
  | Comparator c e => (transform t (fill tpl_comparator [cmp_wording c; jsonify e]), t)
  | IsBetween lo hi => (transform t (fill tpl_is_between [dec_Z lo; dec_Z hi]), t)
  | IsNone => (transform t (fill tpl_is_none []), t)
  | HasLength m' => let '(s, _) := describe_st ni cw m' conjugated in (transform t (fill tpl_has_length [s]), t)
  | StartsWith s => (transform t (fill tpl_starts_with [s]), t)
  | EndsWith s => (transform t (fill tpl_ends_with [s]), t)
  | ContainsString s => (transform t (fill tpl_contains_string [s]), t)
  | HasItem m' => let '(s, _) := describe_st ni cw m' conjugated in (transform t (fill tpl_has_item [s]), t)
  | HasItems l => (transform t (fill tpl_has_items [jsonify_items_t l]), t)
  | HasOnlyItems l => (transform t (fill tpl_has_only_items [jsonify_items_t l]), t)
  | HasAllItems m' => let '(s, _) := describe_st ni cw m' conjugated in (transform t (fill tpl_has_all_items [s]), t)
  | IsIn l => (transform t (fill tpl_is_in [jsonify_items_t l]), t)
  | HasEntry path vm =>
      let ret := transform t (fill tpl_has_entry [join path_sep (map jsonify path)]) in
      match vm with
      | Some m' => let '(s, _) := describe_st ni cw m' conjugated in (ret ++ has_entry_that ++ s, t)
      | None => (ret, t)
      end
  | IsValueOfType ty vm =>
      let ret := transform t (fill tpl_is_type [type_wording ty]) in
      match vm with
      | Some m' => let '(s, _) := describe_st ni cw m' conjugated in (ret ++ fill tpl_is_type_that [s], t)
      | None => (ret, t)
      end
  | AllOf ms =>
      composite cw (fix descs (ms : list matcher) (t : transf) : list str * transf :=
                   match ms with
                   | [] => ([], t)
                   | m' :: r => let '(s, t1) := describe_st ni cw m' t in let '(ss, t2) := descs r t1 in (s :: ss, t2)
                   end) ms (rel_all cw t) t
  | AnyOf ms =>
      composite cw (fix descs (ms : list matcher) (t : transf) : list str * transf :=
                   match ms with
                   | [] => ([], t)
                   | m' :: r => let '(s, t1) := describe_st ni cw m' t in let '(ss, t2) := descs r t1 in (s :: ss, t2)
                   end) ms (rel_any cw t) t
  | Anything w => (transform t (any_wording w), t)
  | Not m' =>
      match ni with
      | NotMutates => describe_st ni cw m' (set_negative t)                       (* the caller's object stays negative *)
      | NotFresh => let '(s, _) := describe_st ni cw m' (flip t) in (s, t)
      end
  | Wrapper m' descr _ =>
      match descr with
      | None => describe_st ni cw m' t
      | Some d => (transform t d, t)
      end
  end.

(* the rendering of a composite as a function of the operands' descriptions alone (specification side of C17) *)
Definition layout (cw : comp_impl) (ms : list matcher) (rel : str) (ds : list str) : str :=
  if existsb (composite_operand cw) ms then multi_line rel ds
  else if existsb has_newline ds then multi_line rel ds
  else
    let d := join (fill sl_join_format [rel]) ds in
    if Nat.ltb sl_limit (List.length d) then multi_line rel ds
    else match d with [] => multi_line rel ds | _ => d end.

(* matcher.build_description(MatcherDescriptionTransformer()) *)
Definition describe (ni : not_impl) (cw : comp_impl) (m : matcher) : str := fst (describe_st ni cw m fresh).

(* the sentence of the check: "Expect <hint> <description>" / "Expect <description>" *)
Definition log_description (ni : not_impl) (cw : comp_impl) (hint : option str) (m : matcher) : str :=
  match hint with
  | Some h => fill tpl_expect_hint [h; describe ni cw m]
  | None => fill tpl_expect [describe ni cw m]
  end.

(* the accepted set of a matcher (specification side of C17) *)
Definition accepts (m : matcher) (v : pyval) : bool :=
  match matches m v with Ok (true, _) => true | _ => false end.

(* ------------------------------------------------------------------ token-level rendering of flat expressions
   (specification side of C17_faithful_partial).  A literal is a non-composite matcher possibly under not_, seen through its
   wording only: an opaque token (identity of the leaf wording, negative form or not).  A flat expression is a literal or a
   non-empty all_of / any_of of literals; it is rendered on one line (l1 REL l2 ...) or itemised (: - l1 - REL l2 ...),
   whichever the length rule of `layout` chooses (any choice is allowed here). *)
Inductive lit := Lit (id : nat) (neg : bool).
Inductive tok := TLit (l : lit) | TAnd | TOr | TColon | TBullet.
Inductive flat := FLit (l : lit) | FAll (ls : list lit) | FAny (ls : list lit).

Fixpoint single_line_toks (rel : tok) (ls : list lit) : list tok :=
  match ls with
  | [] => []
  | [l] => [TLit l]
  | l :: r => TLit l :: rel :: single_line_toks rel r
  end.

Fixpoint items_toks (rel : tok) (ls : list lit) (first : bool) : list tok :=
  match ls with
  | [] => []
  | l :: r => (if first then [TBullet; TLit l] else [TBullet; rel; TLit l]) ++ items_toks rel r false
  end.

Definition render_flat (single : bool) (f : flat) : list tok :=
  match f with
  | FLit l => [TLit l]
  | FAll ls => if single then single_line_toks TAnd ls else TColon :: items_toks TAnd ls true
  | FAny ls => if single then single_line_toks TOr ls else TColon :: items_toks TOr ls true
  end.

Definition flat_nonempty (f : flat) : bool :=
  match f with FLit _ => true | FAll ls | FAny ls => match ls with [] => false | _ => true end end.

(* verdicts: val id = the verdict of leaf id on the value at hand (values on which a leaf raises are left out) *)
Definition lit_sem (val : nat -> bool) (l : lit) : bool := let '(Lit id neg) := l in xorb neg (val id).
Definition flat_sem (val : nat -> bool) (f : flat) : bool :=
  match f with
  | FLit l => lit_sem val l
  | FAll ls => forallb (lit_sem val) ls
  | FAny ls => existsb (lit_sem val) ls
  end.

(* reading a token list back: the literals in order, and whether an "or" occurs *)
Fixpoint toks_lits (ts : list tok) : list lit :=
  match ts with [] => [] | TLit l :: r => l :: toks_lits r | _ :: r => toks_lits r end.
Fixpoint toks_has_or (ts : list tok) : bool :=
  match ts with [] => false | TOr :: _ => true | _ :: r => toks_has_or r end.
Definition toks_sem (val : nat -> bool) (ts : list tok) : bool :=
  if toks_has_or ts then existsb (lit_sem val) (toks_lits ts) else forallb (lit_sem val) (toks_lits ts).

(* ------------------------------------------------------------------ token-level rendering of nested expressions
   fexpr: literals combined by non-empty all_of / any_of and by not_, nested at will.  (A wrapper that keeps the description --
   hide_result_details() -- changes neither the wording nor, with fixes/F23, the layout: at this level it is the expression
   it wraps.)
   doc: what the description shows, with the indentation of the itemised form read as structure: a line of tokens, or a
   list of items, each introduced by "-" and, from the second on, by the relationship word.
   render_under single neg e: the description of e under a transformer whose negation flag is neg.  Not.build_description
   hands its operand a transformer with the flag flipped, which every build_description below passes on to its operands:
   each composite picks its relationship word from it (`"or" if transformation.negative else "and"`, dually for any_of:
   tok_all / tok_any) and each leaf takes its negative form (a literal that is itself a negated leaf takes the positive one:
   neg_lit).  `single` stands for the length / newline rule of `layout` (any decision function of the flag and of the
   operands is allowed); as in `layout` with composites._is_composite, a composite with an operand that is a composite --
   also behind not_ -- is never rendered on one line (fexpr_is_lit looks through FNotN). *)
Inductive fexpr := FL (l : lit) | FAllN (es : list fexpr) | FAnyN (es : list fexpr) | FNotN (e : fexpr).
Inductive doc := DLine (ts : list tok) | DItems (items : list (option tok * doc)).

Definition neg_lit (neg : bool) (l : lit) : lit := let '(Lit id n) := l in Lit id (xorb neg n).
Definition tok_all (neg : bool) : tok := if neg then TOr else TAnd.
Definition tok_any (neg : bool) : tok := if neg then TAnd else TOr.

(* an operand that its parent may join on its own line: a leaf, possibly behind not_ *)
Fixpoint fexpr_is_lit (e : fexpr) : bool := match e with FL _ => true | FNotN e' => fexpr_is_lit e' | _ => false end.
(* and the literal it shows under the flag neg *)
Fixpoint fexpr_lit (neg : bool) (e : fexpr) : option lit :=
  match e with FL l => Some (neg_lit neg l) | FNotN e' => fexpr_lit (negb neg) e' | _ => None end.
Fixpoint fexpr_lits (neg : bool) (es : list fexpr) : list lit :=
  match es with
  | [] => []
  | e :: r => match fexpr_lit neg e with Some l => l :: fexpr_lits neg r | None => fexpr_lits neg r end
  end.

Fixpoint doc_items (rel : tok) (ds : list doc) (first : bool) : list (option tok * doc) :=
  match ds with
  | [] => []
  | d :: r => ((if first then None else Some rel), d) :: doc_items rel r false
  end.

Fixpoint render_under (single : bool -> list fexpr -> bool) (neg : bool) (e : fexpr) : doc :=
  match e with
  | FL l => DLine [TLit (neg_lit neg l)]
  | FNotN e' => render_under single (negb neg) e'
  | FAllN es => if forallb fexpr_is_lit es && single neg es
                then DLine (single_line_toks (tok_all neg) (fexpr_lits neg es))
                else DItems (doc_items (tok_all neg) (map (render_under single neg) es) true)
  | FAnyN es => if forallb fexpr_is_lit es && single neg es
                then DLine (single_line_toks (tok_any neg) (fexpr_lits neg es))
                else DItems (doc_items (tok_any neg) (map (render_under single neg) es) true)
  end.

(* under MatcherDescriptionTransformer(): the description of the check *)
Definition render (single : list fexpr -> bool) (e : fexpr) : doc := render_under (fun _ => single) false e.

Fixpoint fexpr_wf (e : fexpr) : bool :=
  match e with
  | FL _ => true
  | FNotN e' => fexpr_wf e'
  | FAllN es | FAnyN es => match es with [] => false | _ => forallb fexpr_wf es end
  end.

Fixpoint fsem (val : nat -> bool) (e : fexpr) : bool :=
  match e with
  | FL l => lit_sem val l
  | FNotN e' => negb (fsem val e')
  | FAllN es => forallb (fsem val) es
  | FAnyN es => existsb (fsem val) es
  end.

Definition item_is_or (it : option tok * doc) : bool := match fst it with Some TOr => true | _ => false end.

(* reading a doc back *)
Fixpoint doc_sem (val : nat -> bool) (d : doc) : bool :=
  match d with
  | DLine ts => toks_sem val ts
  | DItems items => if existsb item_is_or items
                    then existsb (fun it => doc_sem val (snd it)) items
                    else forallb (fun it => doc_sem val (snd it)) items
  end.
