(* C09 — the text codecs of scalar values used by the report backends.

   Python                                            Gallina
   ------------------------------------------------  --------------------------------------------
   report.format_time_as_iso8601 (round(ts,3) ->     tfmt tc      (abstract)  /  iso_fmt   (concrete, for the
     utcfromtimestamp -> isoformat(ms) + "Z")                                    correspondence check only)
   report.parse_iso8601_time (rstrip("Z") ->         tparse tc    (abstract)  /  iso_parse (concrete)
     fromisoformat -> replace(tzinfo=utc).timestamp)
   str(int)                                          ifmt tc      (abstract)  /  dec_fmt
   int(str)                                          iparse tc    (abstract)  /  dec_parse

   The float pipeline is NOT verified. Times are integer milliseconds (Z); the theorems of C09 quantify over every
   `textcodec` satisfying `codec_ok` (parse after format is the identity), which is the modelling assumption
   "format/parse is the identity on integer milliseconds" made explicit. The check validates that assumption on
   the real functions (random and boundary floats) and validates `iso_codec` against them on the same values.
   No proofs in this file. *)
From Coq Require Import List NArith ZArith Bool.
Import ListNotations.
From LCC Require Import Base.Util Model.Report.
Local Open Scope Z_scope.

Record textcodec := mkCodec {
  tfmt : Z -> str;            (* milliseconds -> "2019-05-04T22:57:08.399Z" *)
  tparse : str -> option Z;   (* None = ValueError *)
  ifmt : Z -> str;            (* str(n) *)
  iparse : str -> option Z }. (* int(s), None = ValueError *)

Definition codec_ok (tc : textcodec) : Prop :=
  (forall z, tparse tc (tfmt tc z) = Some z) /\ (forall z, iparse tc (ifmt tc z) = Some z).

(* ---------------- concrete codec (executable; used by the correspondence case files) ---------------- *)
Definition digit (d : Z) : N := Z.to_N (48 + d).
(* k decimal digits of n (most significant first), n taken modulo 10^k *)
Fixpoint digits (k : nat) (n : Z) : str :=
  match k with
  | O => []
  | S k' => digits k' (n / 10) ++ [digit (n mod 10)]
  end.

(* Howard Hinnant's civil_from_days, days since 1970-01-01 (d >= -719468) *)
Definition civil_from_days (d : Z) : Z * Z * Z :=
  let z := d + 719468 in
  let era := z / 146097 in
  let doe := z - era * 146097 in
  let yoe := (doe - doe / 1460 + doe / 36524 - doe / 146096) / 365 in
  let y := yoe + era * 400 in
  let doy := doe - (365 * yoe + yoe / 4 - yoe / 100) in
  let mp := (5 * doy + 2) / 153 in
  let dd := doy - (153 * mp + 2) / 5 + 1 in
  let m := if mp <? 10 then mp + 3 else mp - 9 in
  (if m <=? 2 then y + 1 else y, m, dd).

Definition days_from_civil (y m d : Z) : Z :=
  let y := if m <=? 2 then y - 1 else y in
  let era := y / 400 in
  let yoe := y - era * 400 in
  let doy := (153 * (if m >? 2 then m - 3 else m + 9) + 2) / 5 + d - 1 in
  let doe := yoe * 365 + yoe / 4 - yoe / 100 + doy in
  era * 146097 + doe - 719468.

Definition c_dash : N := 45%N.
Definition c_colon : N := 58%N.
Definition c_T : N := 84%N.
Definition c_Z : N := 90%N.
Definition c_dot : N := 46%N.

Definition iso_fmt (ms : Z) : str :=
  let secs := ms / 1000 in
  let days := secs / 86400 in
  let sod := secs mod 86400 in
  let '(y, m, d) := civil_from_days days in
  digits 4 y ++ [c_dash] ++ digits 2 m ++ [c_dash] ++ digits 2 d ++ [c_T] ++
  digits 2 (sod / 3600) ++ [c_colon] ++ digits 2 (sod / 60 mod 60) ++ [c_colon] ++ digits 2 (sod mod 60) ++
  [c_dot] ++ digits 3 (ms mod 1000) ++ [c_Z].

(* decimal number made of exactly the given characters; None if one is not an ASCII digit *)
Fixpoint num_of (acc : Z) (s : str) : option Z :=
  match s with
  | [] => Some acc
  | c :: r => if (N.leb 48 c && N.leb c 57)%bool then num_of (acc * 10 + (Z.of_N c - 48)) r else None
  end.
Definition obind {A B} (o : option A) (f : A -> option B) : option B := match o with Some x => f x | None => None end.

(* strict parser of the 24-character form produced by iso_fmt *)
Definition iso_parse (s : str) : option Z :=
  match s with
  | [y1; y2; y3; y4; d1; m1; m2; d2; a1; a2; t; h1; h2; k1; i1; i2; k2; s1; s2; p; f1; f2; f3; z] =>
    if (N.eqb d1 c_dash && N.eqb d2 c_dash && N.eqb t c_T && N.eqb k1 c_colon && N.eqb k2 c_colon &&
        N.eqb p c_dot && N.eqb z c_Z)%bool then
      obind (num_of 0 [y1; y2; y3; y4]) (fun y => obind (num_of 0 [m1; m2]) (fun m => obind (num_of 0 [a1; a2]) (fun d =>
      obind (num_of 0 [h1; h2]) (fun h => obind (num_of 0 [i1; i2]) (fun mi => obind (num_of 0 [s1; s2]) (fun se =>
      obind (num_of 0 [f1; f2; f3]) (fun f =>
        Some ((((days_from_civil y m d * 24 + h) * 60 + mi) * 60 + se) * 1000 + f))))))))
    else None
  | _ => None
  end.

(* str(int) / int(str) on decimal strings *)
Fixpoint dec_digits (fuel : nat) (n : Z) (acc : str) : str :=
  match fuel with
  | O => acc
  | S f => if n <? 10 then digit n :: acc else dec_digits f (n / 10) (digit (n mod 10) :: acc)
  end.
Definition dec_fmt (z : Z) : str :=
  if z <? 0 then c_dash :: dec_digits (S (Z.to_nat (Z.log2 (- z)))) (- z) []
  else dec_digits (S (Z.to_nat (Z.log2 z))) z [].
Definition dec_parse (s : str) : option Z :=
  match s with
  | [] => None
  | c :: r => if N.eqb c c_dash then (match r with [] => None | _ => option_map Z.opp (num_of 0 r) end) else num_of 0 s
  end.

Definition iso_codec : textcodec := mkCodec iso_fmt iso_parse dec_fmt dec_parse.

(* a codec for which codec_ok is provable by a two-line argument (non-vacuity of the hypothesis): unary notation *)
Definition una_fmt (z : Z) : str := (if z <? 0 then 45%N else 43%N) :: repeat 49%N (Z.abs_nat z).
Definition una_parse (s : str) : option Z :=
  match s with
  | c :: r => Some (if N.eqb c 45 then - Z.of_nat (length r) else Z.of_nat (length r))
  | [] => None
  end.
Definition una_codec : textcodec := mkCodec una_fmt una_parse una_fmt una_parse.
