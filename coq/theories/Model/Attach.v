(* Attachment naming (session.py, Session.prepare_attachment):
       with self._attachment_lock:
           attachment_filename = "%04d_%s" % (self._attachment_count + 1, filename)
           self._attachment_count += 1
   With the lock the read of the counter, the construction of the name and the increment are one atomic step of the
   calling thread ([run_locked]); [run_unlocked] is the same code with the read and the write as two steps, to show what
   the lock is for. A schedule is a list of thread identifiers: the thread named performs its next step. No proofs here. *)
From Coq Require Import List Arith Bool.
Import ListNotations.

Record astate := mkA { a_count : nat; a_names : list nat; a_reads : list (nat * nat) }.  (* thread -> value it has read *)
Definition a0 : astate := mkA 0 [] [].

Definition locked_step (s : astate) (t : nat) : astate :=
  mkA (S (a_count s)) (a_names s ++ [S (a_count s)]) (a_reads s).
Definition run_locked (nthreads : nat) (sched : list nat) : astate := fold_left locked_step sched a0.

Fixpoint lookup_read (t : nat) (l : list (nat * nat)) : option nat :=
  match l with [] => None | (k, v) :: r => if Nat.eqb k t then Some v else lookup_read t r end.
Definition drop_read (t : nat) (l : list (nat * nat)) := filter (fun p => negb (Nat.eqb (fst p) t)) l.

Definition unlocked_step (s : astate) (t : nat) : astate :=
  match lookup_read t (a_reads s) with
  | None => mkA (a_count s) (a_names s) ((t, a_count s) :: a_reads s)                 (* name := count + 1 *)
  | Some v => mkA (S v) (a_names s ++ [S v]) (drop_read t (a_reads s))                 (* count := read value + 1 *)
  end.
Definition run_unlocked (nthreads : nat) (sched : list nat) : astate := fold_left unlocked_step sched a0.

Definition names_of (s : astate) : list nat := a_names s.
