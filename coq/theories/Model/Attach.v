(* Attachment naming (session.py, Session.prepare_attachment):
       with self._attachment_lock:
           attachment_filename = "%04d_%s" % (self._attachment_count + 1, filename)
           self._attachment_count += 1
   With the lock the read of the counter, the construction of the name and the increment are one atomic step of the
   calling thread ([run_locked]); [run_unlocked] is the same code with the read and the write as two steps, to show what
   the lock is for. A schedule is a list of thread identifiers: the thread named performs its next step. No proofs here. *)
From Coq Require Import List Arith Bool.
Import ListNotations.

Record astate := mkA { a_count : nat; a_names : list nat; a_reads : list (nat * nat) }.  (* thread -> value it has read *)
Definition a0 : astate := mkA 0 [] [].

Definition locked_step (s : astate) (t : nat) : astate :=
  mkA (S (a_count s)) (a_names s ++ [S (a_count s)]) (a_reads s).
Definition run_locked (nthreads : nat) (sched : list nat) : astate := fold_left locked_step sched a0.

Fixpoint lookup_read (t : nat) (l : list (nat * nat)) : option nat :=
  match l with [] => None | (k, v) :: r => if Nat.eqb k t then Some v else lookup_read t r end.
Definition drop_read (t : nat) (l : list (nat * nat)) := filter (fun p => negb (Nat.eqb (fst p) t)) l.

Definition unlocked_step (s : astate) (t : nat) : astate :=
  match lookup_read t (a_reads s) with
  | None => mkA (a_count s) (a_names s) ((t, a_count s) :: a_reads s)                 (* name := count + 1 *)
  | Some v => mkA (S v) (a_names s ++ [S v]) (drop_read t (a_reads s))                 (* count := read value + 1 *)
  end.
Definition run_unlocked (nthreads : nat) (sched : list nat) : astate := fold_left unlocked_step sched a0.

Definition names_of (s : astate) : list nat := a_names s.

(* ---- the whole life of an attachment (prepare_attachment is a context manager):
       Reserve t   thread t enters the block: a number is reserved under the lock (as above)
       Commit t    the innermost open block of thread t ends normally: the LogAttachment event is fired, the report now
                   references that number
       Abandon t   the innermost open block of thread t is left by an exception: nothing is fired, and the number is NOT
                   given back (the counter only grows)
   [bstep_giveback] is the variant in which an abandoned block decrements the counter ("no hole in the numbering"), to show
   why it must not. *)
Inductive aop := Reserve (t : nat) | Commit (t : nat) | Abandon (t : nat).

Record bstate := mkB {
  b_count : nat;
  b_open : list (nat * nat);      (* (thread, number) of the open blocks, innermost first *)
  b_refs : list nat;              (* numbers the report references, in firing order *)
  b_all : list nat }.             (* every number handed out, in order *)
Definition b0 : bstate := mkB 0 [] [] [].

Fixpoint take_open (t : nat) (l : list (nat * nat)) : option (nat * list (nat * nat)) :=
  match l with
  | [] => None
  | (k, n) :: r => if Nat.eqb k t then Some (n, r)
                   else match take_open t r with Some (m, r') => Some (m, (k, n) :: r') | None => None end
  end.

Definition bstep (s : bstate) (o : aop) : bstate :=
  match o with
  | Reserve t => mkB (S (b_count s)) ((t, S (b_count s)) :: b_open s) (b_refs s) (b_all s ++ [S (b_count s)])
  | Commit t => match take_open t (b_open s) with
                | Some (n, r) => mkB (b_count s) r (b_refs s ++ [n]) (b_all s)
                | None => s
                end
  | Abandon t => match take_open t (b_open s) with
                 | Some (n, r) => mkB (b_count s) r (b_refs s) (b_all s)
                 | None => s
                 end
  end.
Definition brun (ops : list aop) : bstate := fold_left bstep ops b0.

Definition bstep_giveback (s : bstate) (o : aop) : bstate :=
  match o with
  | Abandon t => match take_open t (b_open s) with
                 | Some (n, r) => mkB (pred (b_count s)) r (b_refs s) (b_all s)
                 | None => s
                 end
  | _ => bstep s o
  end.
Definition brun_giveback (ops : list aop) : bstate := fold_left bstep_giveback ops b0.
