(* Model of lemoncheesecake/suite/loader.py (with builder.py decorators, core.py add_test/add_suite, helpers/moduleimport.py,
   helpers/introspection.py) on an ABSTRACT SOURCE TREE.

   Source tree: directories holding modules (file name, optional SUITE dict, module-level symbols in source order) and
   sub-directories; a symbol is a test function/method or a suite class whose body is again a list of symbols.
   Every symbol carries the arguments of its decorators (None = argument omitted / decorator absent).

   Python                                              | here
   ----------------------------------------------------+-------------------------------------------------------------
   importing a module: decorators run in source order, | rank_items, rank_item : the counter Metadata._next_rank is threaded
     a class body before the class decorator;          |   through the symbols (post-order for classes); @lcc.suite(rank=k)
     @lcc.test always takes a rank                     |   takes no counter value; all parameter sets of a parametrized test share
                                                       |   one rank
   load_suite_from_module: SUITE.get("rank", next())   | rank_module : the counter is incremented even when SUITE gives a rank
   order of imports in load_suites_from_directory      | rank_dir : modules sorted by file name, then sub-directories sorted by name,
                                                       |   recursively (MODELLED: glob/listdir + sorted on paths = sort on names)
   dir(obj) / get_object_attributes + sorted(key=rank) | namespace (last definition of an attribute wins, alphabetical order)
                                                       |   then stable sort by rank (MODELLED: dir(), inspect predicates)
   _load_test / _load_parametrized_tests / _load_tests | expand_test, load_tests_of
   name or func.__name__ ; description or build_...    | or_str (Python truthiness: None and "" both fall back)
   build_description_from_name                         | desc_of_name (capitalize + "_" -> " ", ASCII only: MODELLED)
   _default_naming_scheme                              | default_naming (name_<k>, description #<k>)
   naming_scheme callable / format strings             | NTable: the k-th entry is what the scheme returns (MODELLED as a table)
   md.condition and not md.condition(obj)              | hidden_of : option bool -> bool (Some false = hidden)
   Suite.add_test / Suite.add_suite                    | add_tests / add_suites (description checked before name; error values)
   load_suite_from_class / load_suites_from_classes    | load_class / load_body (all classes are loaded, THEN the hidden ones dropped)
   load_suite_from_module / load_suite_from_file       | load_module (single-class collapse)
   load_suites_from_directory                          | load_dir (fixed : bool = companion directory of a hidden module skipped,
                                                       |   i.e. fixes/F16-*.patch applied; false = the code before the fix)
   BaseSuite.is_empty                                  | is_empty
   @lcc.tags(names...): md.tags.extend(names)          | t_tags / c_tags : the arguments of the (single) @lcc.tags decorator
   @lcc.prop(k, v): md.properties[k] = v               | t_props / c_props : the @lcc.prop decorators of the symbol, listed top to bottom
                                                       |   as in the source; they are APPLIED bottom-up (MODELLED: decorator evaluation):
                                                       |   props_of_decorators = dict_set folded over the reversed list
   @lcc.link(url, name=None): md.links.append(...)     | t_links / c_links : same convention; links_of_decorators = the reversed list
   Python dict (str -> str): d[k] = v, d.update(e)     | pdict = association list in insertion order; dict_set (an existing key keeps its
                                                       |   place, its value is replaced; a new key goes last), dict_update
   _load_test: test.tags.extend(md.tags);              | expand_test : lt_tags, lt_props (dict_update of the empty dict), lt_links;
     test.properties.update(md.properties);            |   every test produced by a parametrized symbol is copy.copy of the same Test,
     test.links.extend(md.links); pull_node (copy.copy)|   so it carries the same tags / properties / links (the sharing of the list and
                                                       |   dict OBJECTS between these copies is not modelled)
   load_suite_from_class: suite.tags/properties/links  | class_meta
   load_suite_from_module: SUITE.get("tags", []),      | mod_meta : s_tags; s_props = the entries of the "properties" dict literal in the
     .get("properties", {}), map(_normalize_link,      |   order written (a repeated key of a literal behaves like dict_set: MODELLED);
     .get("links", []))                                |   s_links : each entry is "url" (LStr) or ("url", name-or-None) (LPair);
   _normalize_link                                     |   normalize_link
   Suite(None, name, description) for a directory      | no_meta (no tag, no property, no link)
   Not modelled: hooks, injected fixtures, dependencies, generated tests (add_test_into_suite), class inheritance, import
   errors, metadata type checks (_check_test_tree_node_types: only well-typed metadata is considered); the disabled reason
   (bool only).
   Strings are lists of code points.  No proofs in this file. *)
From Coq Require Import List Arith Bool NArith.
Import ListNotations.

Definition str := list N.

Fixpoint str_eqb (a b : str) : bool :=
  match a, b with
  | [], [] => true
  | x :: r, y :: s => N.eqb x y && str_eqb r s
  | _, _ => false
  end.

(* Python's str comparison: lexicographic on code points *)
Fixpoint str_leb (a b : str) : bool :=
  match a, b with
  | [], _ => true
  | _ :: _, [] => false
  | x :: r, y :: s => if N.ltb x y then true else if N.eqb x y then str_leb r s else false
  end.

Fixpoint mem_str (x : str) (l : list str) : bool :=
  match l with [] => false | y :: r => str_eqb x y || mem_str x r end.

(* stable insertion sort: an element goes before the first element that is not smaller *)
Fixpoint insert_by {A} (leb : A -> A -> bool) (x : A) (l : list A) : list A :=
  match l with
  | [] => [x]
  | y :: r => if leb x y then x :: l else y :: insert_by leb x r
  end.
Definition sort_by {A} (leb : A -> A -> bool) (l : list A) : list A := fold_right (insert_by leb) [] l.

(* ---------------------------------------------------------------- strings built by the framework *)
Definition upper (c : N) : N := if (N.leb 97 c && N.leb c 122)%bool then (c - 32)%N else c.
Definition lower (c : N) : N := if (N.leb 65 c && N.leb c 90)%bool then (c + 32)%N else c.
Definition capitalize (s : str) : str := match s with [] => [] | c :: r => upper c :: map lower r end.
Definition desc_of_name (s : str) : str := map (fun c => if N.eqb c 95 then 32%N else c) (capitalize s).

Fixpoint digits (fuel : nat) (n : N) (acc : str) : str :=
  match fuel with
  | O => acc
  | S f => let acc' := (48 + N.modulo n 10)%N :: acc in
           if N.eqb (N.div n 10) 0 then acc' else digits f (N.div n 10) acc'
  end.
Definition dec_of_nat (n : nat) : str := digits 25 (N.of_nat n) [].

(* name or default : None and "" are both false *)
Definition or_str (o : option str) (d : str) : str :=
  match o with Some (c :: r) => c :: r | _ => d end.

(* ---------------------------------------------------------------- metadata: tags, properties, links *)
(* a Python dict with str keys and values: association list in insertion order, keys pairwise distinct *)
Definition pdict := list (str * str).
(* d[k] = v *)
Fixpoint dict_set (k v : str) (d : pdict) : pdict :=
  match d with
  | [] => [(k, v)]
  | (k', v') :: r => if str_eqb k k' then (k', v) :: r else (k', v') :: dict_set k v r
  end.
(* d.update(src) *)
Definition dict_update (d src : pdict) : pdict := fold_left (fun acc kv => dict_set (fst kv) (snd kv) acc) src d.
(* d.get(k) *)
Fixpoint dict_get (k : str) (d : pdict) : option str :=
  match d with [] => None | (k', v) :: r => if str_eqb k k' then Some v else dict_get k r end.

(* (url, name or None) *)
Definition link := (str * option str)%type.

(* the decorators of one symbol are listed top to bottom as in the source and applied bottom-up, on a fresh Metadata() *)
Definition props_of_decorators (calls : list (str * str)) : pdict := dict_update [] (rev calls).
Definition links_of_decorators (calls : list link) : list link := rev calls.

(* an entry of SUITE["links"] *)
Inductive slink := LStr (url : str) | LPair (url : str) (name : option str).
Definition normalize_link (l : slink) : link := match l with LStr u => (u, None) | LPair u n => (u, n) end.

(* what a loaded suite carries *)
Record meta := { md_tags : list str; md_props : pdict; md_links : list link }.
Definition no_meta : meta := {| md_tags := []; md_props := []; md_links := [] |}.

(* ---------------------------------------------------------------- source tree *)
Inductive naming := NDefault | NTable (l : list (str * str)).

Record tdecl := { t_attr : str; t_name : option str; t_desc : option str; t_cond : option bool; t_disabled : bool;
                  t_tags : list str; t_props : list (str * str); t_links : list link;
                  t_params : option (list nat * naming) }.
Record cdecl := { c_attr : str; c_name : option str; c_desc : option str; c_rank : option nat; c_cond : option bool;
                  c_disabled : bool; c_tags : list str; c_props : list (str * str); c_links : list link }.
(* [rank] fields are filled by the import pass (rank_item etc.); their initial content is irrelevant *)
Inductive item := ITest (rank : nat) (d : tdecl) | IClass (rank : nat) (c : cdecl) (body : list item).

Record sdict := { s_name : option str; s_desc : option str; s_rank : option nat; s_cond : option bool; s_tags : list str;
                  s_props : list (str * str); s_links : list slink }.
Record mdecl := { m_file : str; m_suite : option sdict; m_rank : nat; m_items : list item }.
Inductive dir := Dir (name : str) (mods : list mdecl) (subs : list dir).

Definition dir_name (d : dir) : str := match d with Dir n _ _ => n end.
Definition item_attr (it : item) : str := match it with ITest _ d => t_attr d | IClass _ c _ => c_attr c end.
Definition item_rank (it : item) : nat := match it with ITest r _ => r | IClass r _ _ => r end.
Definition is_test (it : item) : bool := match it with ITest _ _ => true | _ => false end.
Definition is_class (it : item) : bool := match it with IClass _ _ _ => true | _ => false end.

Definition hidden_of (c : option bool) : bool := match c with Some false => true | _ => false end.

(* ---------------------------------------------------------------- import pass: the rank counter *)
(* map with a threaded counter *)
Section Thread.
  Context {A : Type} (f : nat -> A -> A * nat).
  Fixpoint thread (n : nat) (l : list A) : list A * nat :=
    match l with
    | [] => ([], n)
    | x :: r => let '(rx, n') := f n x in let '(rr, n'') := thread n' r in (rx :: rr, n'')
    end.
End Thread.

Fixpoint rank_item (n : nat) (it : item) : item * nat :=
  match it with
  | ITest _ d => (ITest n d, S n)
  | IClass _ c body =>
      let '(rb, n1) := thread rank_item n body in
      match c_rank c with
      | Some k => (IClass k c rb, n1)
      | None => (IClass n1 c rb, S n1)
      end
  end.
Definition rank_items (n : nat) (l : list item) : list item * nat := thread rank_item n l.

Definition mod_hidden (m : mdecl) : bool := match m_suite m with Some s => hidden_of (s_cond s) | None => false end.

Definition rank_module (n : nat) (m : mdecl) : mdecl * nat :=
  let '(ri, n1) := rank_items n (m_items m) in
  let r := match m_suite m with Some s => match s_rank s with Some k => k | None => n1 end | None => n1 end in
  ({| m_file := m_file m; m_suite := m_suite m; m_rank := r; m_items := ri |}, S n1).

Definition rank_modules (n : nat) (l : list mdecl) : list mdecl * nat := thread rank_module n l.

Definition mod_leb (a b : mdecl) : bool := str_leb (m_file a) (m_file b).
Definition dir_leb (a b : dir) : bool := str_leb (dir_name a) (dir_name b).
Definition hidden_files (l : list mdecl) : list str := map m_file (filter mod_hidden l).

(* sorted(glob of the .py files) and sorted(listdir) at every level: done once, before anything else (names are not changed by the
   later passes, so sorting first is the same as sorting at each visit) *)
Fixpoint norm_dir (d : dir) : dir :=
  match d with
  | Dir name mods subs => Dir name (sort_by mod_leb mods) (sort_by dir_leb (map norm_dir subs))
  end.

(* [fixed]: the companion directory of a hidden module is not visited at all.  Expects a normalised tree. *)
Fixpoint rank_dir (fixed : bool) (n : nat) (d : dir) : dir * nat :=
  match d with
  | Dir name mods subs =>
      let '(rm, n1) := rank_modules n mods in
      let '(rs, n2) :=
        thread (fun n x => if fixed && mem_str (dir_name x) (hidden_files mods) then (x, n) else rank_dir fixed n x) n1 subs in
      (Dir name rm rs, n2)
  end.

(* ---------------------------------------------------------------- loaded tree *)
Record ltest := { lt_name : str; lt_desc : str; lt_rank : nat; lt_disabled : bool; lt_tags : list str; lt_props : pdict;
                  lt_links : list link; lt_param : option nat }.
Inductive lsuite := LSuite (name desc : str) (rank : nat) (disabled hidden : bool) (md : meta)
                           (tests : list ltest) (subs : list lsuite).
Definition ls_name (s : lsuite) := match s with LSuite n _ _ _ _ _ _ _ => n end.
Definition ls_desc (s : lsuite) := match s with LSuite _ d _ _ _ _ _ _ => d end.
Definition ls_rank (s : lsuite) := match s with LSuite _ _ r _ _ _ _ _ => r end.
Definition ls_hidden (s : lsuite) := match s with LSuite _ _ _ _ h _ _ _ => h end.
Definition ls_meta (s : lsuite) := match s with LSuite _ _ _ _ _ m _ _ => m end.
Definition ls_tests (s : lsuite) := match s with LSuite _ _ _ _ _ _ t _ => t end.
Definition ls_subs (s : lsuite) := match s with LSuite _ _ _ _ _ _ _ u => u end.

Inductive err := DupTestDesc | DupTestName | DupSuiteDesc | DupSuiteName.
Inductive result (A : Type) := Ok (a : A) | Err (e : err).
Arguments Ok {A} a.
Arguments Err {A} e.
Definition bind {A B} (r : result A) (f : A -> result B) : result B :=
  match r with Ok a => f a | Err e => Err e end.

(* ---------------------------------------------------------------- symbols of a scope *)
(* dir(): one entry per attribute name (the last definition), in alphabetical order.  The functions are generic in
   what is attached to a symbol ([key] projects the symbol) so that the loader can sort symbols paired with the result
   of loading them. *)
Definition attr_leb (a b : item) : bool := str_leb (item_attr a) (item_attr b).
Definition rank_leb (a b : item) : bool := Nat.leb (item_rank a) (item_rank b).
Section Keyed.
  Context {A : Type} (key : A -> item).
  Fixpoint dedupe_last_k (l : list A) : list A :=
    match l with
    | [] => []
    | x :: r => if mem_str (item_attr (key x)) (map (fun y => item_attr (key y)) r) then dedupe_last_k r
                else x :: dedupe_last_k r
    end.
  Definition namespace_k (l : list A) : list A := sort_by (fun a b => attr_leb (key a) (key b)) (dedupe_last_k l).
  (* _get_test_symbols(obj, filter) = sorted(filter(filter_func, attributes), key=rank) *)
  Definition symbols_k (f : item -> bool) (l : list A) : list A :=
    sort_by (fun a b => rank_leb (key a) (key b)) (filter (fun a => f (key a)) (namespace_k l)).
End Keyed.
Definition dedupe_last := dedupe_last_k (fun x : item => x).
Definition symbols := symbols_k (fun x : item => x).

(* ---------------------------------------------------------------- tests *)
Definition test_name (d : tdecl) : str := or_str (t_name d) (t_attr d).
Definition test_desc (d : tdecl) : str := or_str (t_desc d) (desc_of_name (test_name d)).

Definition default_naming (name desc : str) (k : nat) : str * str :=
  (name ++ [95%N] ++ dec_of_nat k, desc ++ [32%N; 35%N] ++ dec_of_nat k).

Fixpoint expand_params (name desc : str) (nm : naming) (k : nat) (vals : list nat) : list (str * str * option nat) :=
  match vals with
  | [] => []
  | v :: r =>
      let nd := match nm with
                | NDefault => default_naming name desc k
                | NTable t => nth (k - 1) t (name, desc)
                end in
      (fst nd, snd nd, Some v) :: expand_params name desc nm (S k) r
  end.

(* the (name, description, parameters) of the tests produced by one test symbol, before the hidden filter *)
Definition expand_names (d : tdecl) : list (str * str * option nat) :=
  match t_params d with
  | None => [(test_name d, test_desc d, None)]
  | Some (vals, nm) => expand_params (test_name d) (test_desc d) nm 1 vals
  end.

Definition expand_test (rank : nat) (d : tdecl) : list ltest :=
  if hidden_of (t_cond d) then []
  else map (fun x => {| lt_name := fst (fst x); lt_desc := snd (fst x); lt_rank := rank; lt_disabled := t_disabled d;
                        lt_tags := t_tags d; lt_props := dict_update [] (props_of_decorators (t_props d));
                        lt_links := links_of_decorators (t_links d); lt_param := snd x |}) (expand_names d).

Definition expand_item (it : item) : list ltest :=
  match it with ITest r d => expand_test r d | IClass _ _ _ => [] end.

(* _load_tests over the test symbols of a scope *)
Definition load_tests_of (l : list item) : list ltest := flat_map expand_item (symbols is_test l).

(* Suite.add_test, folded over the tests in order; [acc] = tests already in the suite *)
Fixpoint add_tests (acc : list ltest) (l : list ltest) : result (list ltest) :=
  match l with
  | [] => Ok acc
  | t :: r =>
      if mem_str (lt_desc t) (map lt_desc acc) then Err DupTestDesc
      else if mem_str (lt_name t) (map lt_name acc) then Err DupTestName
      else add_tests (acc ++ [t]) r
  end.

(* Suite.add_suite, folded *)
Fixpoint add_suites (acc : list lsuite) (l : list lsuite) : result (list lsuite) :=
  match l with
  | [] => Ok acc
  | s :: r =>
      if mem_str (ls_desc s) (map ls_desc acc) then Err DupSuiteDesc
      else if mem_str (ls_name s) (map ls_name acc) then Err DupSuiteName
      else add_suites (acc ++ [s]) r
  end.

Definition class_name (c : cdecl) : str := or_str (c_name c) (c_attr c).
Definition class_desc (c : cdecl) : str := or_str (c_desc c) (desc_of_name (class_name c)).
(* suite.tags.extend(md.tags); suite.properties.update(md.properties); suite.links.extend(md.links) on a fresh Suite *)
Definition class_meta (c : cdecl) : meta :=
  {| md_tags := c_tags c; md_props := dict_update [] (props_of_decorators (c_props c));
     md_links := links_of_decorators (c_links c) |}.

Fixpoint mapM {A B} (f : A -> result B) (l : list A) : result (list B) :=
  match l with
  | [] => Ok []
  | x :: r => bind (f x) (fun y => bind (mapM f r) (fun ys => Ok (y :: ys)))
  end.

Fixpoint sequence (l : list (result (list lsuite))) : result (list lsuite) :=
  match l with
  | [] => Ok []
  | x :: r => bind x (fun y => bind (sequence r) (fun ys => Ok (y ++ ys)))
  end.

(* load_suite_from_class on a class symbol (a test symbol yields nothing).  The sub-classes are loaded in the order
   given by [symbols_k]: every symbol of the body is paired with the result of loading it, the pairs are ordered like the
   symbols, and the results are taken in that order (first error wins), exactly as map(load_suite_from_class, classes). *)
Fixpoint load_class (it : item) : result (list lsuite) :=
  match it with
  | ITest _ _ => Ok []
  | IClass rank c body =>
      let children := map (fun x => (x, load_class x)) body in
      bind (add_tests [] (load_tests_of body)) (fun tests =>
      bind (sequence (map snd (symbols_k fst is_class children))) (fun loaded =>
      bind (add_suites [] (filter (fun s => negb (ls_hidden s)) loaded)) (fun subs =>
      Ok [LSuite (class_name c) (class_desc c) rank (c_disabled c) (hidden_of (c_cond c)) (class_meta c) tests subs])))
  end.

Definition children_of (l : list item) : list (item * result (list lsuite)) := map (fun x => (x, load_class x)) l.

(* tests and sub-suites of a module *)
Definition load_body (l : list item) : result (list ltest * list lsuite) :=
  bind (add_tests [] (load_tests_of l)) (fun tests =>
  bind (sequence (map snd (symbols_k fst is_class (children_of l)))) (fun loaded =>
  bind (add_suites [] (filter (fun s => negb (ls_hidden s)) loaded)) (fun subs => Ok (tests, subs)))).

(* ---------------------------------------------------------------- modules *)
Definition mod_name (m : mdecl) : str :=
  match m_suite m with Some s => match s_name s with Some n => n | None => m_file m end | None => m_file m end.
Definition mod_desc (m : mdecl) : str :=
  match m_suite m with
  | Some s => match s_desc s with Some d => d | None => desc_of_name (mod_name m) end
  | None => desc_of_name (mod_name m)
  end.
(* SUITE.get("tags", []) / .get("properties", {}) / map(_normalize_link, .get("links", [])); no SUITE: suite_info = {} *)
Definition mod_meta (m : mdecl) : meta :=
  match m_suite m with
  | Some s => {| md_tags := s_tags s; md_props := dict_update [] (dict_update [] (s_props s));
                 md_links := map normalize_link (s_links s) |}
  | None => no_meta
  end.

(* load_suite_from_file: the single-class collapse *)
Definition load_module (m : mdecl) : result lsuite :=
  bind (load_body (m_items m)) (fun ts =>
  let s := LSuite (mod_name m) (mod_desc m) (m_rank m) false (mod_hidden m) (mod_meta m) (fst ts) (snd ts) in
  match m_suite m, fst ts, snd ts with
  | None, [], [c] => if str_eqb (ls_name c) (m_file m) then Ok c else Ok s
  | _, _, _ => Ok s
  end).

Fixpoint load_modules (l : list mdecl) : result (list (str * lsuite)) :=
  match l with
  | [] => Ok []
  | m :: r => bind (load_module m) (fun s => bind (load_modules r) (fun ss => Ok ((m_file m, s) :: ss)))
  end.

(* ---------------------------------------------------------------- directories *)
Fixpoint is_empty (s : lsuite) : bool :=
  match s with
  | LSuite _ _ _ _ _ _ tests subs =>
      match tests with
      | [] => (fix all (l : list lsuite) : bool := match l with [] => true | x :: r => is_empty x && all r end) subs
      | _ :: _ => false
      end
  end.

(* the dict [suites]: key = module file name (Some f) or the bare directory name of a synthetic suite (None) *)
Definition entry := (option str * lsuite)%type.

Fixpoint find_mod (f : str) (l : list entry) : option lsuite :=
  match l with
  | [] => None
  | (Some g, s) :: r => if str_eqb f g then Some s else find_mod f r
  | (None, _) :: r => find_mod f r
  end.
Fixpoint replace_mod (f : str) (s' : lsuite) (l : list entry) : list entry :=
  match l with
  | [] => []
  | (Some g, s) :: r => if str_eqb f g then (Some g, s') :: r else (Some g, s) :: replace_mod f s' r
  | e :: r => e :: replace_mod f s' r
  end.

Definition with_subs (s : lsuite) (subs : list lsuite) : lsuite :=
  match s with LSuite n d r di h tg tests _ => LSuite n d r di h tg tests subs end.

Definition name_leb (a b : lsuite) : bool := str_leb (ls_name a) (ls_name b).
Definition srank_leb (a b : lsuite) : bool := Nat.leb (ls_rank a) (ls_rank b).

(* the loop over the sub-directories; [loadx] is load_suites_from_directory itself (recursive call), [hidden] the file
   names of the hidden modules of this directory *)
Section Merge.
  Variable fixed : bool.
  Variable hidden : list str.
  Variable loadx : dir -> result (list lsuite).
  Fixpoint merge_subdirs (entries : list entry) (l : list dir) : result (list entry) :=
    match l with
    | [] => Ok entries
    | x :: r =>
        if fixed && mem_str (dir_name x) hidden then merge_subdirs entries r
        else
          bind (loadx x) (fun sub =>
          match find_mod (dir_name x) entries with
          | Some s =>
              bind (add_suites (ls_subs s) sub) (fun all =>
              merge_subdirs (replace_mod (dir_name x) (with_subs s all) entries) r)
          | None =>
              bind (add_suites [] sub) (fun all =>
              merge_subdirs (entries ++ [(None, LSuite (dir_name x) (desc_of_name (dir_name x)) 0 false false no_meta [] all)]) r)
          end)
    end.
End Merge.

Definition entries_of (loaded : list (str * lsuite)) : list entry :=
  map (fun p => (Some (fst p), snd p)) (filter (fun p => negb (ls_hidden (snd p))) loaded).
Definition finish (final : list entry) : list lsuite :=
  sort_by srank_leb (sort_by name_leb (filter (fun s => negb (is_empty s)) (map snd final))).

(* expects a normalised, ranked tree *)
Fixpoint load_dir (fixed : bool) (d : dir) : result (list lsuite) :=
  match d with
  | Dir _ mods subs =>
      bind (load_modules mods) (fun loaded =>
      bind (merge_subdirs fixed (hidden_files mods) (load_dir fixed) (entries_of loaded) subs) (fun final =>
      Ok (finish final)))
  end.

(* load_suites_from_directory(root) with Metadata._next_rank = rank0 *)
Definition load (fixed : bool) (rank0 : nat) (root : dir) : result (list lsuite) :=
  load_dir fixed (fst (rank_dir fixed rank0 (norm_dir root))).

(* ---------------------------------------------------------------- flattening the loaded tree *)
(* (the enclosing suites, outermost first: name and tags / properties / links of each; test) for every test of a loaded suite *)
Definition pnode := (str * meta)%type.
Definition ls_node (s : lsuite) : pnode := (ls_name s, ls_meta s).
Fixpoint flat (prefix : list pnode) (s : lsuite) : list (list pnode * ltest) :=
  match s with
  | LSuite name _ _ _ _ md tests subs =>
      map (fun t => (prefix ++ [(name, md)], t)) tests ++
      (fix go (l : list lsuite) : list (list pnode * ltest) :=
         match l with [] => [] | x :: r => flat (prefix ++ [(name, md)]) x ++ go r end) subs
  end.
Definition flat_all (prefix : list pnode) (l : list lsuite) : list (list pnode * ltest) := flat_map (flat prefix) l.
