(* Model of lemoncheesecake/metadatapolicy.py: MetadataPolicy.check_suites_compliance. Executable definitions only.

   Proj.v carries no metadata (tags / properties are irrelevant to scheduling), so the metadata of a project is an
   *extension* defined here, keyed by path: `metadata_map` gives the properties and tags of every suite and every test.
   (Links are not constrained by the policy and are not modelled.)

   Python                                              Gallina
   --------------------------------------------------  ------------------------------------------------------------
   MetadataPolicy._properties (dict name -> rule)      pol_props : list prop_rule, in dict order (names unique: pol_wf)
   MetadataPolicy._tags                                pol_tags : list tag_rule
   _disallow_unknown_properties / _tags                pol_no_unknown_props / pol_no_unknown_tags
   obj.properties (dict), obj.tags (list)              md_props : list (name * name) (keys unique), md_tags : list name
   _check_compliance(obj, type, avail_p, forb_p,       check_compliance pol on_test md   (the four tables are computed from
                     avail_t, forb_t)                    the rules with on_test / on_suite as the two callers do)
   check_test_compliance / check_suite_compliance      check_compliance pol true / check_suite_compliance
   check_suites_compliance                             check_suites_compliance: suites in flatten_suites order, for each the
                                                       suite itself and then its tests

   Truthiness mirrored: `if available_properties[name]["values"] and value not in ...`: accepted_values None and [] both mean
   "no constraint": pr_values = [] stands for both. `_get_rule_application` (on_test=None,on_suite=None -> test only) happens when
   the rule is declared, the model starts from the stored booleans. *)
From Coq Require Import List Arith Bool.
Import ListNotations.
From LCC Require Import Model.Proj Model.Fixture Model.Deps.

Record prop_rule := mkPropRule {
  pr_name : name;
  pr_values : list name;        (* accepted values; [] = any *)
  pr_on_test : bool;
  pr_on_suite : bool;
  pr_required : bool }.

Record tag_rule := mkTagRule { tr_name : name; tr_on_test : bool; tr_on_suite : bool }.

Record policy := mkPolicy {
  pol_props : list prop_rule;
  pol_tags : list tag_rule;
  pol_no_unknown_props : bool;
  pol_no_unknown_tags : bool }.

Definition empty_policy : policy := mkPolicy [] [] false false.

Record metadata := mkMeta { md_props : list (name * name); md_tags : list name }.
Definition no_metadata : metadata := mkMeta [] [].

(* metadata of the suites (by suite path) and of the tests (by test path); absent = no_metadata *)
Record metadata_map := mkMdMap { mm_suites : dict metadata; mm_tests : dict metadata }.
Definition no_metadata_map : metadata_map := mkMdMap [] [].
Definition md_of (d : dict metadata) (p : path) : metadata := match dict_find d p with Some m => m | None => no_metadata end.

(* ---------------------------------------------------------------- _check_compliance *)
Definition pr_applies (on_test : bool) (r : prop_rule) : bool := if on_test then pr_on_test r else pr_on_suite r.
Definition tr_applies (on_test : bool) (r : tag_rule) : bool := if on_test then tr_on_test r else tr_on_suite r.

Definition available_props (pol : policy) (on_test : bool) : list prop_rule := filter (pr_applies on_test) (pol_props pol).
Definition forbidden_props (pol : policy) (on_test : bool) : list name :=
  map pr_name (filter (fun r => negb (pr_applies on_test r)) (pol_props pol)).
Definition available_tags (pol : policy) (on_test : bool) : list name := map tr_name (filter (tr_applies on_test) (pol_tags pol)).
Definition forbidden_tags (pol : policy) (on_test : bool) : list name :=
  map tr_name (filter (fun r => negb (tr_applies on_test r)) (pol_tags pol)).

Fixpoint find_rule (rules : list prop_rule) (n : name) : option prop_rule :=
  match rules with
  | [] => None
  | r :: rs => if Nat.eqb n (pr_name r) then Some r else find_rule rs n
  end.

Definition check_compliance (pol : policy) (on_test : bool) (md : metadata) : result unit :=
  let avail := available_props pol on_test in
  let keys := map fst (md_props md) in
  (* check unknown properties *)
  bind (if pol_no_unknown_props pol
        then for_each (fun k => if name_mem k (map pr_name avail) then Ok tt else Err (ValidationError RPolUnknownProp)) keys
        else Ok tt) (fun _ =>
  (* check forbidden properties *)
  bind (for_each (fun k => if name_mem k (forbidden_props pol on_test) then Err (ValidationError RPolForbiddenProp) else Ok tt) keys)
  (fun _ =>
  (* check required properties *)
  bind (for_each (fun r => if name_mem (pr_name r) keys then Ok tt else Err (ValidationError RPolMissingProp))
                 (filter pr_required avail)) (fun _ =>
  (* check properties allowed values *)
  bind (for_each (fun kv => match find_rule avail (fst kv) with
                            | None => Ok tt
                            | Some r => match pr_values r with
                                        | [] => Ok tt
                                        | vals => if name_mem (snd kv) vals then Ok tt else Err (ValidationError RPolBadValue)
                                        end
                            end) (md_props md)) (fun _ =>
  (* check unknown tags *)
  bind (if pol_no_unknown_tags pol
        then for_each (fun t => if name_mem t (available_tags pol on_test) then Ok tt else Err (ValidationError RPolUnknownTag))
                      (md_tags md)
        else Ok tt) (fun _ =>
  (* check forbidden tags *)
  for_each (fun t => if name_mem t (forbidden_tags pol on_test) then Err (ValidationError RPolForbiddenTag) else Ok tt)
           (md_tags md)))))).

(* ---------------------------------------------------------------- suites *)
(* flatten_suites with the path of every suite (pre-order, as Fixture.flatten_suites) *)
Fixpoint suites_with_path (prefix : path) (s : suite) : list (path * suite) :=
  match s with
  | Suite n _ _ _ _ subs => (prefix ++ [n], s) :: flat_map (suites_with_path (prefix ++ [n])) subs
  end.
Definition all_suites_with_path (l : list suite) : list (path * suite) := flat_map (suites_with_path []) l.

Definition check_suite_compliance (pol : policy) (mm : metadata_map) (ps : path * suite) : result unit :=
  bind (check_compliance pol false (md_of (mm_suites mm) (fst ps))) (fun _ =>
  for_each (fun t => check_compliance pol true (md_of (mm_tests mm) (fst ps ++ [tt_name t]))) (su_tests (snd ps))).

Definition check_suites_compliance (pol : policy) (mm : metadata_map) (suites : list suite) : result unit :=
  for_each (check_suite_compliance pol mm) (all_suites_with_path suites).
