(* Layer 3 of the run model: what one task does when a worker runs or skips it — the sequence of observable atoms
   (events put on the event queue, context flags raised, user-code markers) of each thread involved, and the task result.
   Mirrors runner.py (TestTask / Suite*Task / TestSession*Task .run and .skip, RunContext.run_setup_funcs /
   run_teardown_funcs / handle_exception), session.py (cursor, hold / flush / discard protocol, lcc.Thread) — DESIGN.md
   appendix C.2, C.4, C.5 — for the schedule-independent fragment: no interrupt (session.aborted stays False), no per-thread
   fixture, user threads are joined by the script that started them (at AJoin or when the script ends).

   In that fragment the atoms of a task are a function of the project, of the decision taken for the task (run / skip with a
   reason) and, for teardown tasks, of what the matching setup task kept; they do not depend on the interleaving. The global
   trace of a run is an interleaving of these per-thread sequences (layer 1 constrains the interleaving).

   Python                                         | here
   -----------------------------------------------+---------------------------------------------------------
   _Cursor(location, step, pending_events)        | tstate (ts_loc, ts_step, ts_pending) + ts_out (atoms emitted so far)
   event_manager.fire / _hold_event / _flush_...  | fire / hold / flush
   _discard_or_fire_event                         | discard_or_fire
   start_step=set_step / end_step / _end_step_if_any | set_step / end_step / end_step_if_any
   _log, log_check, log_url, prepare_attachment   | do_log / do_check / do_url / do_attach
   lcc.Thread.__init__ / run                      | spawn_creator / child_thread
   RunContext.handle_exception                    | handle_exception
   run_setup_funcs / run_teardown_funcs           | run_setup_funcs / run_teardown_funcs
   session._failures (for the task's location)    | the boolean [failed] threaded through
   No proofs in this file. *)
From Coq Require Import List Arith Bool.
Import ListNotations.
From LCC Require Import Base.Util Model.Proj Model.Sched Model.Fixture.

(* ---------------- vocabulary ---------------- *)
Inductive owner :=
| OBody (p : path) | OSetupTest (p : path) | OTeardownTest (p : path)
| OSetupSuite (p : path) | OTeardownSuite (p : path)
| OFxSetup (f : name) | OFxTeardown (f : name).
Definition tpath := list nat.          (* thread below the task's own thread: [] is the worker thread, [k] its k-th child ... *)

Inductive loc := LSessionSetup | LSessionTeardown | LSuiteSetup (p : path) | LSuiteTeardown (p : path) | LTest (p : path).

Inductive stepd :=
| SdSetupSession | SdTeardownSession | SdSetupSuite | SdTeardownSuite | SdSetupTest | SdTeardownTest
| SdTest (n : name)                             (* the test description *)
| SdUser (o : owner) (tp : tpath) (n : nat).    (* set_step from user code *)

Inductive msg :=
| MUser (o : owner) (tp : tpath) (n : nat)
| MAbortTest | MAbortSuite | MAbortAll          (* "The test has been aborted: ..." etc. (handle_exception) *)
| MUnexpected.                                  (* "Caught unexpected exception while running test: <traceback>" *)

Inductive revt :=
| RSessionSetupStart | RSessionSetupEnd | RSessionTeardownStart | RSessionTeardownEnd
| RSuiteStart (p : path) | RSuiteEnd (p : path)
| RSuiteSetupStart (p : path) | RSuiteSetupEnd (p : path) | RSuiteTeardownStart (p : path) | RSuiteTeardownEnd (p : path)
| RTestStart (p : path) | RTestEnd (p : path)
| RTestSkipped (p : path) (r : option Sched.reason) | RTestDisabled (p : path)
| RStepStart (l : loc) (d : option stepd) (th : tpath)
| RStepEnd (l : loc) (d : option stepd) (th : tpath)
| RLog (l : loc) (d : option stepd) (th : tpath) (level : nat) (m : msg)
| RCheck (l : loc) (d : option stepd) (th : tpath) (ok : bool) (m : msg)
| RUrl (l : loc) (d : option stepd) (th : tpath) (m : msg)
| RAttach (l : loc) (d : option stepd) (th : tpath) (m : msg).

(* which setup produced the value a consumer received *)
Inductive inst := IGlobal | ISuite (p : path) | ITest (p : path) | IAbsent.

Inductive atom :=
| AtFire (e : revt)
| AtFlag (f : flag)
| AtMark (o : owner) (tp : tpath) (id : nat)
| AtUse (o : owner) (tp : tpath) (fx : name) (i : inst)
| AtRaise (o : owner) (tp : tpath) (k : raise_kind)
| AtSpawn (child : tpath)
| AtJoin (child : tpath)
| AtBegin (o : owner)                    (* a piece of user code is entered (fixture function, hook, test body) *)
| AtEnd (o : owner)                      (* ... and returned normally *)
| AtStatus (passed : bool).              (* the status_so_far handed to teardown_test *)

Definition is_step_start (e : revt) : bool := match e with RStepStart _ _ _ => true | _ => false end.

(* ---------------- the thread-local cursor and the event protocol ---------------- *)
Record tstate := mkTs { ts_loc : loc; ts_step : option stepd; ts_pending : list revt; ts_out : list atom }.

Definition fresh_cursor (l : loc) (out : list atom) : tstate := mkTs l None [] out.
Definition emit (a : atom) (s : tstate) : tstate := mkTs (ts_loc s) (ts_step s) (ts_pending s) (ts_out s ++ [a]).
Definition fire (e : revt) (s : tstate) : tstate := emit (AtFire e) s.
Definition hold (e : revt) (s : tstate) : tstate := mkTs (ts_loc s) (ts_step s) (ts_pending s ++ [e]) (ts_out s).
Definition flush (s : tstate) : tstate :=
  mkTs (ts_loc s) (ts_step s) [] (ts_out s ++ map AtFire (ts_pending s)).
Definition set_step_field (d : option stepd) (s : tstate) : tstate := mkTs (ts_loc s) d (ts_pending s) (ts_out s).

(* _discard_or_fire_event(event_class, event): drop the last pending event when it is of the given class, else fire *)
Definition discard_or_fire (is_class : revt -> bool) (e : revt) (s : tstate) : tstate :=
  match List.rev (ts_pending s) with
  | last :: before => if is_class last then mkTs (ts_loc s) (ts_step s) (List.rev before) (ts_out s) else fire e s
  | [] => fire e s
  end.

Definition end_step (th : tpath) (s : tstate) : tstate :=
  set_step_field None (discard_or_fire is_step_start (RStepEnd (ts_loc s) (ts_step s) th) s).
Definition end_step_if_any (th : tpath) (s : tstate) : tstate :=
  match ts_step s with Some _ => end_step th s | None => s end.
Definition set_step (d : stepd) (th : tpath) (s : tstate) : tstate :=
  let s1 := end_step_if_any th s in
  hold (RStepStart (ts_loc s1) (Some d) th) (set_step_field (Some d) s1).

Definition mark_failed (s : tstate) : tstate := emit (AtFlag FFailure) s.

Definition do_log (th : tpath) (level : nat) (m : msg) (s : tstate) : tstate * bool :=
  let s1 := flush s in
  let s2 := if Nat.eqb level 3 then mark_failed s1 else s1 in
  (fire (RLog (ts_loc s) (ts_step s) th level m) s2, Nat.eqb level 3).
Definition do_check (th : tpath) (ok : bool) (m : msg) (s : tstate) : tstate * bool :=
  let s1 := flush s in
  let s2 := if ok then s1 else mark_failed s1 in
  (fire (RCheck (ts_loc s) (ts_step s) th ok m) s2, negb ok).
Definition do_url (th : tpath) (m : msg) (s : tstate) : tstate :=
  fire (RUrl (ts_loc s) (ts_step s) th m) (flush s).
Definition do_attach (th : tpath) (m : msg) (s : tstate) : tstate :=
  fire (RAttach (ts_loc s) (ts_step s) th m) (flush s).

(* ---------------- scripts ---------------- *)
Definition is_exception (k : raise_kind) : bool := match k with ExcBase => false | _ => true end.

(* lcc.Thread.__init__, executed by the creator: a held result-start event (anything but a StepStart) is flushed *)
Definition spawn_creator (s : tstate) : tstate :=
  match ts_pending s with
  | e :: r => if is_step_start e then s else mkTs (ts_loc s) (ts_step s) r (ts_out s ++ [AtFire e])
  | [] => s
  end.

Record sres := mkSres {
  sr_state : tstate;                          (* the thread's cursor and output after the script *)
  sr_failed : bool;                           (* the location has been marked failed (by this thread or a joined child) *)
  sr_children : list (owner * tpath * list atom);     (* atoms of every thread spawned (transitively), in spawn order *)
  sr_raised : option raise_kind;
  sr_unjoined : list tpath;
  sr_nchild : nat }.

Definition join_all (l : list tpath) (s : tstate) : tstate := fold_left (fun st c => emit (AtJoin c) st) l s.

(* end of a script (normal or by a raise): the threads it started and did not join are joined *)
Definition close_script (x : sres) : sres :=
  mkSres (join_all (sr_unjoined x) (sr_state x)) (sr_failed x) (sr_children x) (sr_raised x) [] (sr_nchild x).

(* One action of a script, in thread [tp]. [env] gives the instance of each fixture value visible to the code.
   A script stops at its first raise: an action is a no-op once [sr_raised] is set. *)
Fixpoint step_action (o : owner) (env : name -> inst) (tp : tpath) (a : action) (x : sres) {struct a} : sres :=
  match sr_raised x with
  | Some _ => x
  | None =>
      let s := sr_state x in
      let upd s' f := mkSres s' (sr_failed x || f) (sr_children x) None (sr_unjoined x) (sr_nchild x) in
      match a with
      | ALog lvl n => let '(s', f) := do_log tp lvl (MUser o tp n) s in upd s' f
      | ACheck ok n => let '(s', f) := do_check tp ok (MUser o tp n) s in upd s' f
      | AUrl n => upd (do_url tp (MUser o tp n) s) false
      | AAttach n => upd (do_attach tp (MUser o tp n) s) false
      | ASetStep n => upd (set_step (SdUser o tp n) tp s) false
      | AMark id => upd (emit (AtMark o tp id) s) false
      | AUse f => upd (emit (AtUse o tp f (env f)) s) false
      | ASpawn body =>
          let ctp := tp ++ [sr_nchild x] in
          let s1 := spawn_creator s in
          (* the child thread: Thread.run = own cursor, start_step(creator's step), target, log_error on Exception, end_step *)
          let c0 := hold (RStepStart (ts_loc s1) (ts_step s1) ctp) (mkTs (ts_loc s1) (ts_step s1) [] []) in
          let cr := close_script
                      ((fix run_list (l : list action) (y : sres) : sres :=
                          match l with [] => y | b :: r => run_list r (step_action o env ctp b y) end)
                         body (mkSres c0 false [] None [] 0)) in
          let c1 := match sr_raised cr with
                    | Some k => if is_exception k then fst (do_log ctp 3 MUnexpected (sr_state cr)) else sr_state cr
                    | None => sr_state cr
                    end in
          let cfailed := sr_failed cr || match sr_raised cr with Some k => is_exception k | None => false end in
          let c2 := end_step ctp c1 in
          mkSres (emit (AtSpawn ctp) s1) (sr_failed x || cfailed)
                 (sr_children x ++ [(o, ctp, ts_out c2)] ++ sr_children cr) None (sr_unjoined x ++ [ctp]) (S (sr_nchild x))
      | AJoin => mkSres (join_all (sr_unjoined x) s) (sr_failed x) (sr_children x) None [] (sr_nchild x)
      | ARaise k => mkSres (emit (AtRaise o tp k) s) (sr_failed x) (sr_children x) (Some k) (sr_unjoined x) (sr_nchild x)
      end
  end.

Definition interp (o : owner) (tp : tpath) (env : name -> inst) (sc : script) (x : sres) : sres :=
  close_script (fold_left (fun y a => step_action o env tp a y) sc x).

Definition run_script (o : owner) (env : name -> inst) (sc : script) (s : tstate) (failed : bool)
           (children : list (owner * tpath * list atom)) : sres :=
  let x := interp o [] env sc (mkSres (emit (AtBegin o) s) failed children None [] 0) in
  match sr_raised x with
  | None => mkSres (emit (AtEnd o) (sr_state x)) (sr_failed x) (sr_children x) None (sr_unjoined x) (sr_nchild x)
  | Some _ => x
  end.

(* ---------------- runner: exceptions, setup and teardown functions ---------------- *)
(* RunContext.handle_exception(excp, suite): always an error log; AbortSuite / AbortAllTests also raise a context flag *)
Definition handle_exception (k : raise_kind) (suite : option path) (s : tstate) : tstate :=
  match k with
  | ExcAbortTest => fst (do_log [] 3 MAbortTest s)
  | ExcAbortSuite => let s1 := fst (do_log [] 3 MAbortSuite s) in
                     match suite with Some p => emit (AtFlag (FAbortedSuite p)) s1 | None => s1 end
  | ExcAbortAllTests => emit (AtFlag FAbortedSession) (fst (do_log [] 3 MAbortAll s))
  | _ => fst (do_log [] 3 MUnexpected s)
  end.

Inductive sfun :=
| SFixture (f : fixture)                                  (* ScheduledFixtures._setup_fixture(name) *)
| SInject                                                 (* suite.inject_fixtures(...) *)
| SSetupSuite (p : path) (sc : script)
| SSetupTest (p : path) (sc : script).
Inductive tfun :=
| TFixture (f : fixture)                                  (* ScheduledFixtures._teardown_fixture(name) *)
| TTeardownSuite (p : path) (sc : script)
| TTeardownTest (p : path) (sc : script).
Definition pair := (option sfun * option tfun)%type.

Record rstate := mkRs { rs_t : tstate; rs_failed : bool; rs_children : list (owner * tpath * list atom); rs_died : bool }.

Definition call_sfun (env : name -> inst) (f : sfun) (r : rstate) : rstate * option raise_kind :=
  match f with
  | SFixture fx => let x := run_script (OFxSetup (fx_name fx)) env (fx_setup fx) (rs_t r) (rs_failed r) (rs_children r) in
                   (mkRs (sr_state x) (sr_failed x) (sr_children x) false, sr_raised x)
  | SInject => (r, None)
  | SSetupSuite p sc => let x := run_script (OSetupSuite p) env sc (rs_t r) (rs_failed r) (rs_children r) in
                        (mkRs (sr_state x) (sr_failed x) (sr_children x) false, sr_raised x)
  | SSetupTest p sc => let x := run_script (OSetupTest p) env sc (rs_t r) (rs_failed r) (rs_children r) in
                       (mkRs (sr_state x) (sr_failed x) (sr_children x) false, sr_raised x)
  end.

Definition call_tfun (env : name -> inst) (f : tfun) (r : rstate) : rstate * option raise_kind :=
  match f with
  | TFixture fx => if fx_generator fx then
                     let x := run_script (OFxTeardown (fx_name fx)) env (fx_teardown fx) (rs_t r) (rs_failed r) (rs_children r) in
                     (mkRs (sr_state x) (sr_failed x) (sr_children x) false, sr_raised x)
                   else (r, None)
  | TTeardownSuite p sc => let x := run_script (OTeardownSuite p) env sc (rs_t r) (rs_failed r) (rs_children r) in
                           (mkRs (sr_state x) (sr_failed x) (sr_children x) false, sr_raised x)
  | TTeardownTest p sc => let x := run_script (OTeardownTest p) env sc (emit (AtStatus (negb (rs_failed r))) (rs_t r))
                                                (rs_failed r) (rs_children r) in
                          (mkRs (sr_state x) (sr_failed x) (sr_children x) false, sr_raised x)
  end.

Definition after_exception (k : raise_kind) (suite : option path) (r : rstate) : rstate :=
  if is_exception k then mkRs (handle_exception k suite (rs_t r)) true (rs_children r) false
  else mkRs (rs_t r) (rs_failed r) (rs_children r) true.        (* BaseException: propagates, the worker thread dies *)

(* run_setup_funcs(funcs, location, suite): returns the teardown functions kept (in setup order); [suite] is what
   handle_exception receives: the test's suite for a TestTask, None for the suite / session phases *)
Fixpoint run_setup_funcs (env : name -> inst) (suite : option path) (pairs : list pair) (r : rstate)
         (kept : list (option tfun)) : rstate * list (option tfun) :=
  match pairs with
  | [] => (r, kept)
  | (None, td) :: rest => run_setup_funcs env suite rest r (kept ++ [td])
  | (Some f, td) :: rest =>
      match call_sfun env f r with
      | (r1, Some k) => (after_exception k suite r1, kept)                (* handle_exception(e, suite); break *)
      | (r1, None) => if rs_failed r1 then (r1, kept)                     (* not is_successful(location): break *)
                      else run_setup_funcs env suite rest r1 (kept ++ [td])
      end
  end.

(* run_teardown_funcs: reversed, None skipped, an exception is handled and the loop goes on *)
Fixpoint run_teardown_list (env : name -> inst) (suite : option path) (l : list (option tfun)) (r : rstate) : rstate :=
  match l with
  | [] => r
  | None :: rest => run_teardown_list env suite rest r
  | Some f :: rest =>
      if rs_died r then r else
      match call_tfun env f r with
      | (r1, Some k) => run_teardown_list env suite rest (after_exception k suite r1)
      | (r1, None) => run_teardown_list env suite rest r1
      end
  end.
Definition run_teardown_funcs (env : name -> inst) (suite : option path) (kept : list (option tfun)) (r : rstate) : rstate :=
  run_teardown_list env suite (List.rev kept) r.

Definition any_setup (pairs : list pair) : bool := existsb (fun p => match fst p with Some _ => true | None => false end) pairs.
Definition any_teardown (l : list (option tfun)) : bool := existsb (fun t => match t with Some _ => true | None => false end) l.
Definition only_teardowns (pairs : list pair) : list (option tfun) :=
  filter (fun t => match t with Some _ => true | None => false end) (map snd pairs).

Definition fixture_pairs (l : list fixture) : list pair := map (fun f => (Some (SFixture f), Some (TFixture f))) l.

(* ---------------- task outputs ---------------- *)
Inductive tkres := TkSuccess | TkFailure | TkDied.     (* Success / TaskFailure / a BaseException escaped from user code:
                                                          the rest of the task is not executed (TaskResultException) *)
Record tout := mkTout {
  to_main : list atom;                         (* atoms of the worker thread *)
  to_children : list (owner * tpath * list atom);      (* atoms of user threads *)
  to_res : tkres;
  to_kept : list (option tfun) }.              (* teardown functions kept by a setup task *)

Definition finish (r : rstate) (kept : list (option tfun)) : tout :=
  mkTout (ts_out (rs_t r)) (rs_children r) (if rs_died r then TkDied else if rs_failed r then TkFailure else TkSuccess) kept.

(* a setup phase (session setup, suite setup): start held, step, setup functions, end discarded or fired *)
Definition setup_phase (env : name -> inst) (l : loc) (start end_ : revt) (is_start : revt -> bool) (d : stepd)
           (pairs : list pair) : tout :=
  if any_setup pairs then
    let s0 := set_step d [] (hold start (fresh_cursor l [])) in
    let '(r, kept) := run_setup_funcs env None pairs (mkRs s0 false [] false) [] in
    if rs_died r then finish r kept else
    let s1 := discard_or_fire is_start end_ (end_step_if_any [] (rs_t r)) in
    finish (mkRs s1 (rs_failed r) (rs_children r) false) kept
  else mkTout [] [] TkSuccess (only_teardowns pairs).

Definition teardown_phase (env : name -> inst) (l : loc) (start end_ : revt) (is_start : revt -> bool) (d : stepd)
           (kept : list (option tfun)) : tout :=
  if any_teardown kept then
    let s0 := set_step d [] (hold start (fresh_cursor l [])) in
    let r := run_teardown_funcs env None kept (mkRs s0 false [] false) in
    if rs_died r then finish r [] else
    let s1 := discard_or_fire is_start end_ (end_step_if_any [] (rs_t r)) in
    (* teardown tasks never raise TaskFailure *)
    mkTout (ts_out s1) (rs_children r) TkSuccess []
  else mkTout [] [] TkSuccess [].

Definition is_session_setup_start (e : revt) := match e with RSessionSetupStart => true | _ => false end.
Definition is_session_teardown_start (e : revt) := match e with RSessionTeardownStart => true | _ => false end.
Definition is_suite_setup_start (e : revt) := match e with RSuiteSetupStart _ => true | _ => false end.
Definition is_suite_teardown_start (e : revt) := match e with RSuiteTeardownStart _ => true | _ => false end.

(* TestTask.run for a test that is executed *)
Definition test_run (env : name -> inst) (p : path) (suite : path) (t : test) (hk : hooks) (test_fixtures : list fixture) : tout :=
  let l := LTest p in
  let s0 := fresh_cursor l [AtFire (RTestStart p)] in
  let pairs : list pair :=
    (match h_setup_test hk with Some sc => Some (SSetupTest p sc) | None => None end,
     match h_teardown_test hk with Some sc => Some (TTeardownTest p sc) | None => None end)
    :: fixture_pairs test_fixtures in
  let s1 := set_step SdSetupTest [] s0 in
  let '(r1, kept) := if any_setup pairs then run_setup_funcs env (Some suite) pairs (mkRs s1 false [] false) []
                     else (mkRs s1 false [] false, only_teardowns pairs) in
  if rs_died r1 then finish r1 [] else
  let r2 :=
    if rs_failed r1 then r1 else
    let s2 := set_step (SdTest (tt_name t)) [] (rs_t r1) in
    let x := run_script (OBody p) env (tt_body t) s2 false (rs_children r1) in
    let r := mkRs (sr_state x) (sr_failed x) (sr_children x) false in
    match sr_raised x with Some k => after_exception k (Some suite) r | None => r end in
  if rs_died r2 then finish r2 [] else
  let r3 := if any_teardown kept
            then run_teardown_funcs env (Some suite) kept (mkRs (set_step SdTeardownTest [] (rs_t r2)) (rs_failed r2) (rs_children r2) false)
            else r2 in
  if rs_died r3 then finish r3 [] else
  let s4 := fire (RTestEnd p) (end_step_if_any [] (rs_t r3)) in
  finish (mkRs s4 (rs_failed r3) (rs_children r3) false) [].

Definition test_disabled_out (p : path) : tout := mkTout [AtFire (RTestDisabled p)] [] TkSuccess [].
(* TestTask.skip: session.skip_test(test, "Test skipped because %s" % reason if reason else None) — a truthiness test:
   the empty reason (a handler failure without message) gives no status details *)
Definition shown_reason (r : option Sched.reason) : option Sched.reason :=
  match r with Some (RHandler true) => None | _ => r end.
Definition test_skipped_out (p : path) (r : option Sched.reason) : tout :=
  mkTout [AtFire (RTestSkipped p (shown_reason r)); AtFlag FFailure] [] TkSuccess [].

(* ---------------- dispatch on the task kind ---------------- *)
(* the suite at a path, with "an enclosing suite is disabled" *)
Fixpoint find_suite_in (l : list suite) (p : path) (inh : bool) {struct p} : option (suite * bool) :=
  match p with
  | [] => None
  | n :: rest =>
      match find (fun s => Nat.eqb (su_name s) n) l with
      | None => None
      | Some s => match rest with
                  | [] => Some (s, inh)
                  | _ => find_suite_in (su_subs s) rest (inh || su_disabled s)
                  end
      end
  end.

Definition find_test_in (l : list suite) (p : path) : option (suite * bool * test) :=
  match find_suite_in l (parent_path p) false with
  | Some (s, inh) =>
      match find (fun t => Nat.eqb (tt_name t) (last p 0)) (su_tests s) with
      | Some t => Some (s, inh, t)
      | None => None
      end
  | None => None
  end.

(* which setup produced the value visible under a fixture name, for code running in test [tp] / suite [sp] *)
Definition env_of (reg : registry) (sp : path) (tp : option path) (f : name) : inst :=
  match reg_find reg f with
  | None => IAbsent
  | Some fx => match fx_scope fx with
               | ScTest => match tp with Some p => ITest p | None => IAbsent end
               | ScSuite => ISuite sp
               | _ => IGlobal
               end
  end.

Definition ok_list {A} (r : result (list A)) : list A := match r with Ok l => l | Err _ => [] end.

(* the setup / teardown pairs of a SuiteInitializationTask (build_suite_initialization_task) *)
Definition init_pairs (reg : registry) (force : bool) (inh : bool) (sp : path) (s : suite) : list pair :=
  fixture_pairs (ok_list (get_fixtures_scheduled_for_suite reg inh s force)) ++
  (match su_injected s with [] => [] | _ => [(Some SInject, None)] end) ++
  (match h_setup_suite (su_hooks s), h_teardown_suite (su_hooks s) with
   | None, None => []
   | ss, ts => [(match ss with Some (_, sc) => Some (SSetupSuite sp sc) | None => None end,
                 match ts with Some sc => Some (TTeardownSuite sp sc) | None => None end)]
   end).

Definition session_pairs (reg : registry) (force : bool) (suites : list suite) : list pair :=
  fixture_pairs (ok_list (get_fixtures_scheduled_for_session reg suites force)).

(* output of a task. [md] is the decision of handle_task; [setup_md] the decision that was taken for the matching setup
   task (for teardown tasks). None = the model has no term for this situation. *)
Definition task_sem (pr : project) (reg : registry) (force : bool) (t : task) (md : mode) (setup_md : option mode)
  : option tout :=
  let suites := p_suites pr in
  match t_kind t with
  | KSuiteBegin => Some (mkTout [AtFire (RSuiteStart (t_path t))] [] TkSuccess [])       (* skip = run *)
  | KSuiteEnd => Some (mkTout [AtFire (RSuiteEnd (t_path t))] [] TkSuccess [])           (* skip = run *)
  | KSessionSetup =>
      match md with
      | Skip _ => Some (mkTout [] [] TkSuccess [])
      | Run => Some (setup_phase (env_of reg [] None) LSessionSetup RSessionSetupStart RSessionSetupEnd
                                 is_session_setup_start SdSetupSession (session_pairs reg force suites))
      end
  | KSessionTeardown =>
      let kept := match setup_md with
                  | Some Run => to_kept (setup_phase (env_of reg [] None) LSessionSetup RSessionSetupStart RSessionSetupEnd
                                                     is_session_setup_start SdSetupSession (session_pairs reg force suites))
                  | _ => []
                  end in
      Some (teardown_phase (env_of reg [] None) LSessionTeardown RSessionTeardownStart RSessionTeardownEnd
                           is_session_teardown_start SdTeardownSession kept)
  | KSuiteInit =>
      match find_suite_in suites (t_path t) false with
      | None => None
      | Some (s, inh) =>
          match md with
          | Skip _ => Some (mkTout [] [] TkSuccess [])
          | Run => Some (setup_phase (env_of reg (t_path t) None) (LSuiteSetup (t_path t)) (RSuiteSetupStart (t_path t))
                                     (RSuiteSetupEnd (t_path t)) is_suite_setup_start SdSetupSuite
                                     (init_pairs reg force inh (t_path t) s))
          end
      end
  | KSuiteTeardown =>
      match find_suite_in suites (t_path t) false with
      | None => None
      | Some (s, inh) =>
          let kept := match setup_md with
                      | Some Run => to_kept (setup_phase (env_of reg (t_path t) None) (LSuiteSetup (t_path t))
                                                         (RSuiteSetupStart (t_path t)) (RSuiteSetupEnd (t_path t))
                                                         is_suite_setup_start SdSetupSuite (init_pairs reg force inh (t_path t) s))
                      | _ => []
                      end in
          Some (teardown_phase (env_of reg (t_path t) None) (LSuiteTeardown (t_path t)) (RSuiteTeardownStart (t_path t))
                               (RSuiteTeardownEnd (t_path t)) is_suite_teardown_start SdTeardownSuite kept)
      end
  | KTest =>
      match find_test_in suites (t_path t) with
      | None => None
      | Some (s, inh, tst) =>
          let disabled := inh || su_disabled s || tt_disabled tst in
          if disabled && negb force then Some (test_disabled_out (t_path t))               (* run and skip alike *)
          else match md with
               | Skip r => Some (test_skipped_out (t_path t) r)
               | Run => Some (test_run (env_of reg (parent_path (t_path t)) (Some (t_path t))) (t_path t)
                                       (parent_path (t_path t)) tst (su_hooks s)
                                       (ok_list (get_fixtures_scheduled_for_test reg tst)))
               end
      end
  end.

(* the result the model predicts for the task, as a layer-1 result *)
Definition predicted_result (i : nat) (md : mode) (o : tout) : option tres :=
  match md, to_res o with
  | Skip r, _ => Some (ResSkipped r)
  | Run, TkSuccess => Some ResSuccess
  | Run, TkFailure => Some (ResFailure (RTaskFailed i))
  | Run, TkDied => Some ResException      (* run_task catches BaseException: the task completes with an exception result *)
  end.
