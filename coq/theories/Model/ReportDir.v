(* Model of lemoncheesecake/reporting/reportdir.py : create_report_dir_with_rotation.

   File system abstraction: the project directory holds
     - "report"            : cur  : option marker   (marker = identity of the run that wrote it)
     - "reports/report-<k>": arch : list (nat * marker), an association list (the listing order of
                             glob is arbitrary, so no order is assumed), keys pairwise distinct.
   A marker stands for the content of a report directory (the harness writes a marker file).

   Python                                     | here
   -------------------------------------------+----------------------------------------------
   _list_directories_for_rotation             | the association list itself
   _remove_obsolete_directories(dirs, limit)  | remove_obsolete limit arch
   _rotate_directory(num, dirname)            | rotate_directory fuel num arch  (fuel = #archives)
   _rotate_directories                        | rotate_directories
   create_report_dir_with_rotation            | run limit fresh st
   manual "rm -rf reports/report-k"           | delete k st
   No proofs in this file. *)
From Coq Require Import List Arith Bool.
Import ListNotations.

Definition marker := nat.
Definition archives := list (nat * marker).

Record state := { cur : option marker; arch : archives }.

Definition init_state : state := {| cur := None; arch := [] |}.

Fixpoint lookup (k : nat) (a : archives) : option marker :=
  match a with
  | [] => None
  | (k', m) :: r => if Nat.eqb k k' then Some m else lookup k r
  end.

Definition has_key (k : nat) (a : archives) : bool :=
  match lookup k a with Some _ => true | None => false end.

(* os.rename(report-a, report-b) on the listing *)
Definition rename (a b : nat) (l : archives) : archives :=
  map (fun p => if Nat.eqb (fst p) a then (b, snd p) else p) l.

(* len(list(filter(lambda num: num <= limit, directories.keys()))) *)
Definition count_le (limit : nat) (a : archives) : nat :=
  length (filter (fun p => Nat.leb (fst p) limit) a).

(* _remove_obsolete_directories *)
Definition remove_obsolete (limit : option nat) (a : archives) : archives :=
  match limit with
  | None => a
  | Some l =>
      if Nat.ltb (count_le l a) l then a
      else filter (fun p => negb (Nat.leb l (fst p))) a      (* keep dir_num < limit *)
  end.

(* _rotate_directory(num, dirname): if report-(num+1) exists, rotate it first; then rename.
   Error value None when the fuel is exhausted (excluded by the theorems: fuel = length arch suffices). *)
Fixpoint rotate_directory (fuel : nat) (num : nat) (a : archives) : option archives :=
  match fuel with
  | O => None
  | S f =>
      if has_key (S num) a then
        match rotate_directory f (S num) a with
        | Some a' => Some (rename num (S num) a')
        | None => None
        end
      else Some (rename num (S num) a)
  end.

(* _rotate_directories *)
Definition rotate_directories (a : archives) : option archives :=
  if has_key 1 a then rotate_directory (length a) 1 a else Some a.

(* create_report_dir_with_rotation(top_dir, archiving_limit) ; [fresh] identifies the new run.
   Returns the new state; the new "report" directory is created empty and then filled by run [fresh]. *)
Definition run (limit : option nat) (fresh : marker) (s : state) : option state :=
  match cur s with
  | None => Some {| cur := Some fresh; arch := arch s |}
  | Some c =>
      match rotate_directories (remove_obsolete limit (arch s)) with
      | Some a' => Some {| cur := Some fresh; arch := (1, c) :: a' |}
      | None => None
      end
  end.

(* manual deletion of reports/report-k *)
Definition delete (k : nat) (s : state) : state :=
  {| cur := cur s; arch := filter (fun p => negb (Nat.eqb (fst p) k)) (arch s) |}.

(* the user removed report/ (or moved it out of the project directory) by hand: no current report is left, archives as they were *)
Definition drop (s : state) : state := {| cur := None; arch := arch s |}.

Inductive op := Run (limit : option nat) | Delete (k : nat) | Drop.

(* histories: the n-th Run gets marker n (fresh by construction) *)
Fixpoint exec (ops : list op) (next : marker) (s : state) : option state :=
  match ops with
  | [] => Some s
  | Run l :: r => match run l next s with Some s' => exec r (S next) s' | None => None end
  | Delete k :: r => exec r next (delete k s)
  | Drop :: r => exec r next (drop s)
  end.

(* canonical observation used by the correspondence check: archives sorted by key *)
Fixpoint insert_sorted (p : nat * marker) (l : archives) : archives :=
  match l with
  | [] => [p]
  | q :: r => if Nat.leb (fst p) (fst q) then p :: l else q :: insert_sorted p r
  end.
Definition sort_arch (a : archives) : archives := fold_right insert_sorted [] a.

Definition observe (s : state) : option marker * archives := (cur s, sort_arch (arch s)).

(* observation after every operation of a history (None = the model ran out of fuel; never happens, C19_histories_total) *)
Definition obs := (option marker * archives)%type.
Fixpoint exec_trace (ops : list op) (next : marker) (s : state) : list (option obs) :=
  match ops with
  | [] => []
  | Run l :: r => match run l next s with
                  | Some s' => Some (observe s') :: exec_trace r (S next) s'
                  | None => [None]
                  end
  | Delete k :: r => Some (observe (delete k s)) :: exec_trace r next (delete k s)
  | Drop :: r => Some (observe (drop s)) :: exec_trace r next (drop s)
  end.
