(* The event-handler thread of AsyncEventManager (events.py) and what _run_suites does with its failure (runner.py):
     _handler_loop : get; None -> stop; call the listeners in subscription order; an Exception from any of them ->
                     record (exception, serialized text) as the pending failure and STOP CONSUMING
     handle_events : on exit put(None) and join the thread
     _run_suites   : after the `with`: pending failure -> raise exception.__class__(text), or LemoncheesecakeException(text)
                     when the class cannot be built from a single string
   Events are abstract here (nat); a listener is a function telling at which events it raises. No proofs in this file. *)
From Coq Require Import List Arith Bool.
Import ListNotations.

Inductive item := Ev (e : nat) | Sentinel.

Inductive exn_class := OneStringArg | OtherSignature.     (* can cls(text) be built? *)
Record failure := mkFailure { f_class : exn_class; f_text : nat; f_at : nat }.   (* text identifier; event at which it was raised *)

(* a listener either handles an event or raises *)
Definition listener := nat -> option (exn_class * nat).     (* Some (class, text) = raises *)

(* the listeners are called in subscription order; the first one that raises stops the delivery of that event *)
Fixpoint deliver (ls : list listener) (e : nat) : option (exn_class * nat) :=
  match ls with
  | [] => None
  | l :: r => match l e with Some x => Some x | None => deliver r e end
  end.

Record hstate := mkH {
  h_delivered : list nat;             (* events fully delivered to every listener, in order *)
  h_pending : option failure;         (* _pending_failure *)
  h_stopped : bool }.                 (* the thread has left its loop *)
Definition h0 : hstate := mkH [] None false.

(* one iteration of _handler_loop on the head of the queue *)
Definition handle (ls : list listener) (h : hstate) (i : item) : hstate :=
  if h_stopped h then h
  else match i with
       | Sentinel => mkH (h_delivered h) (h_pending h) true
       | Ev e => match deliver ls e with
                 | None => mkH (h_delivered h ++ [e]) None false
                 | Some (c, t) => mkH (h_delivered h) (Some (mkFailure c t e)) true
                 end
       end.
Definition run_handler (ls : list listener) (queue : list item) : hstate := fold_left (handle ls) queue h0.

(* what the caller of the run gets when a failure is pending *)
Inductive raised := RaisedSameClass (text : nat) | RaisedLccException (text : nat).
Definition reraise (f : failure) : raised :=
  match f_class f with OneStringArg => RaisedSameClass (f_text f) | OtherSignature => RaisedLccException (f_text f) end.
Definition raised_text (r : raised) : nat := match r with RaisedSameClass t | RaisedLccException t => t end.
