(* Model of the dict operations of lemoncheesecake/matching/operations.py: check_that_in / require_that_in / assert_that_in.
   Executable definitions only; proofs in Proofs/OpsInP.v.

   Python                                                         Gallina
   -------------------------------------------------------------  ----------------------------------------------------------
   the "expected" argument: a Matcher, a list / tuple, a dict,      earg: EMatcher m | EList l | EDict l | EOther
     anything else (ValueError when the generator gets there)
   _build_has_entry_matchers_from_arg(arg, path)  (a generator)     from_arg a path : the (path, matcher) pairs yielded before
                                                                    the generator ends or raises, and whether it raised
   _normalize_key_path                                              key_path (tuple and list keys are both VList here)
   _build_has_entry_matchers_from_args(args, base_key)              from_args: ASingle a (one element: must be a list / tuple /
                                                                    dict, else AssertionError), APairs (key, value)...,
                                                                    AOdd (an odd number >= 3 of arguments: ValueError)
   _HasEntry(KeyPathMatcher(path), m).matches                       HasEntry path (Some m)   (the subclass only changes the
                                                                    description, which C17's model does not cover here)
   [check_that(None, actual, m, quiet=quiet) for m in <generator>]  that_in op ...: the checks recorded one after the other,
                                                                    then the list of verdicts, or the first exception that
                                                                    escapes (from an operation or from the generator) *)
From Coq Require Import List Bool NArith ZArith.
Import ListNotations.
From LCC Require Import Base.Util Model.PyVal Model.Matcher.

Inductive earg := EMatcher (m : matcher) | EList (l : list earg) | EDict (l : list (pyval * earg)) | EOther.

Definition key_path (k : pyval) : list pyval := match k with VList p => p | _ => [k] end.

Definition yielded := list (list pyval * matcher).

Fixpoint from_arg (a : earg) (path : list pyval) {struct a} : yielded * bool :=
  match a with
  | EMatcher m => ([(path, m)], false)
  | EOther => ([], true)
  | EList l =>
      (fix go (l : list earg) (i : Z) : yielded * bool :=
         match l with
         | [] => ([], false)
         | x :: r => let '(ys, e) := from_arg x (path ++ [VInt i]) in
                     if e then (ys, true) else let '(zs, e') := go r (i + 1)%Z in (ys ++ zs, e')
         end) l 0%Z
  | EDict l =>
      (fix go (l : list (pyval * earg)) : yielded * bool :=
         match l with
         | [] => ([], false)
         | (k, x) :: r => let '(ys, e) := from_arg x (path ++ [k]) in
                          if e then (ys, true) else let '(zs, e') := go r in (ys ++ zs, e')
         end) l
  end.

Inductive eargs := ASingle (a : earg) | APairs (l : list (pyval * earg)) | AOdd.

(* what the generator yields and how it ends: None = normally, Some e = with that exception *)
Fixpoint from_pairs (l : list (pyval * earg)) (base : list pyval) : yielded * bool :=
  match l with
  | [] => ([], false)
  | (k, x) :: r => let '(ys, e) := from_arg x (base ++ key_path k) in
                   if e then (ys, true) else let '(zs, e') := from_pairs r base in (ys ++ zs, e')
  end.

Definition from_args (args : eargs) (base_key : pyval) : yielded * option err :=
  let base := key_path base_key in
  match args with
  | ASingle (EMatcher _) | ASingle EOther => ([], Some AssertionError)
  | ASingle a => let '(ys, e) := from_arg a base in (ys, if e then Some OtherError else None)     (* ValueError *)
  | APairs l => let '(ys, e) := from_pairs l base in (ys, if e then Some OtherError else None)
  | AOdd => ([], Some OtherError)
  end.

Inductive outcome_in := ReturnsAll (oks : list bool) | RaisesIn (e : err).
Definition op_in_obs := (list check * outcome_in)%type.

Definition op := pyval -> matcher -> bool -> op_obs.      (* check_that impl / require_that impl / assert_that impl *)

(* the list comprehension: one operation per yielded matcher, in order; the first exception escapes, what was recorded stays *)
Fixpoint run_ops (f : op) (actual : pyval) (quiet : bool) (ys : yielded) (ending : option err) : op_in_obs :=
  match ys with
  | [] => match ending with Some e => ([], RaisesIn e) | None => ([], ReturnsAll []) end
  | (path, m) :: r =>
      match f actual (HasEntry path (Some m)) quiet with
      | (cs, Raises e) => (cs, RaisesIn e)
      | (cs, Returns ok) =>
          match run_ops f actual quiet r ending with
          | (cs', ReturnsAll oks) => (cs ++ cs', ReturnsAll (ok :: oks))
          | (cs', RaisesIn e) => (cs ++ cs', RaisesIn e)
          end
      end
  end.

Definition that_in (f : op) (actual : pyval) (args : eargs) (base_key : pyval) (quiet : bool) : op_in_obs :=
  let '(ys, ending) := from_args args base_key in run_ops f actual quiet ys ending.

(* comparison helpers for the case files *)
Definition outcome_in_eqb (a b : outcome_in) : bool :=
  match a, b with
  | ReturnsAll x, ReturnsAll y => list_eqb Bool.eqb x y
  | RaisesIn x, RaisesIn y => err_eqb x y
  | _, _ => false
  end.
Definition op_in_obs_eqb (a b : op_in_obs) : bool := list_eqb check_eqb (fst a) (fst b) && outcome_in_eqb (snd a) (snd b).
