(* Model of lemoncheesecake/helpers/threading.py : ThreadedFactory, and of fixture.py : _PerThreadFixtureResult on top of it.

   Small-step: every thread executes get_object() one source line at a time; the steps of different threads and of
   the code that calls teardown_factory() are interleaved by an arbitrary schedule (a list of actors).
   The program counter of a thread names the line it is ABOUT to execute (that is where the harness pauses the real
   thread with a sys.settrace line hook).

     def get_object(self):
         try:
   AtRead    return self._local.object            # AttributeError when this thread has no object yet
         except AttributeError:
   AtSetup   obj = self.setup_object()            # AtSetup: the call is made -> InSetup: inside user code -> returns/raises
   AtStore   self._local.object = obj
   AtAppend  self._objects.append(obj)
   AtReturn  return obj

     def teardown_factory(self):              (REPAIRED code, fixes/F21: every executed line is a step, also try: / except)
   TdInit            first_failure = None
   TdFor i ff        for obj in self._objects:            # list iterator with index i: sees elements appended meanwhile
   TdTry i o ff          try:
   TdBody i o ff             self.teardown_object(obj)     # user code: returns, raises an Exception, or raises a BaseException
   TdExcept i o ff       except Exception as excp:         #   that is not an Exception (KeyboardInterrupt, SystemExit: TdExceptBase)
   TdIfNone i o ff           if first_failure is None:
   TdAssign i o                  first_failure = excp
   TdIfFinal ff      if first_failure is not None:        # reached when the iterator is exhausted; threads may still append
   TdRaise e             raise first_failure
   TdDone / TdRaised e / TdAborted o : teardown_factory has returned / has raised first_failure at the end / was left by a
   BaseException that `except Exception` does not catch (the line event of the except line still occurs: TdExceptBase).
   [ff] is the local first_failure; an exception is identified with the object whose teardown_object call raised it.
   (get_object: its try: / except AttributeError: lines touch nothing and are merged into the following step, as before.)

   The code BEFORE the repair (kept for C15_torn_down_after_raise_unfixed_refuted only, see step_main_unfixed below):
     def teardown_factory(self):
   TdFor i _         for obj in self._objects:
   TdBody i o _          self.teardown_object(obj)        # an exception leaves the loop (TdRaised)

   Python                                       | here
   ---------------------------------------------+--------------------------------------------------------------
   threading.local()  (self._local.object)      | locals : tid -> option obj        (per-thread map: ASSUMED semantics)
   self._objects / list.append (atomic, GIL)    | objects : list obj, appended at the end in one step (ASSUMED atomic)
   setup_object()  (user code, may raise)       | fresh object identity [next]; raises when cfg says so
   teardown_object(obj) (user code, may raise)  | recorded in [torn]; outcome td_outcome cfg obj : TdOk | TdExc | TdBaseExc
   ThreadedFactory.get_object                   | step_thread
   ThreadedFactory.teardown_factory             | step_main (called once: ScheduledFixtures._teardown_fixture calls
                                                |   result.teardown() and then deletes the result)
   _PerThreadFixtureResult.get                  | get_object().get(): the value identity IS the object identity
   _PerThreadFixtureResult.setup_object         | _build_fixture_result_from_func: calls the fixture function (and next()
                                                |   for a generator fixture) = setup_object above
   _PerThreadFixtureResult.teardown_object      | result.teardown(): next() on a generator fixture, nothing for a plain one
   _PerThreadFixtureResult.teardown             | teardown_factory
   Logs (ghost state, read by the theorems and by the correspondence): setup_calls, created, failed, accesses, torn;
   they are kept most-recent-first, except [torn] (chronological).
   No proofs in this file. *)
From Coq Require Import List Arith Bool.
Import ListNotations.

Definition tid := nat.
Definition obj := nat.

Inductive pc :=
| Idle
| AtRead
| AtSetup
| InSetup
| AtStore (o : obj)
| AtAppend (o : obj)
| AtReturn (o : obj).

Inductive tdpc :=
| TdNotCalled
| TdInit
| TdFor (i : nat) (ff : option obj)
| TdTry (i : nat) (o : obj) (ff : option obj)
| TdBody (i : nat) (o : obj) (ff : option obj)
| TdExcept (i : nat) (o : obj) (ff : option obj)
| TdExceptBase (o : obj) (ff : option obj)
| TdIfNone (i : nat) (o : obj) (ff : option obj)
| TdAssign (i : nat) (o : obj)
| TdIfFinal (ff : option obj)
| TdRaise (e : obj)
| TdDone
| TdRaised (e : obj)
| TdAborted (o : obj).

(* user code outcomes: setup_fails t k = the call of setup_object on thread t made after k earlier failures on that
   thread raises (a success ends the attempts of a thread); td_outcome o = what teardown_object(o) does: returns,
   raises an Exception, raises a BaseException that is not an Exception *)
Inductive td_result := TdOk | TdExc | TdBaseExc.
Record cfg := { setup_fails : tid -> nat -> bool; td_outcome : obj -> td_result }.
(* teardown_object(o) raises (anything) *)
Definition td_fails (c : cfg) (o : obj) : bool := match td_outcome c o with TdOk => false | _ => true end.

Record state := {
  pcs : tid -> pc;
  locals : tid -> option obj;
  objects : list obj;
  next : obj;
  td : tdpc;
  setup_calls : list tid;                 (* every call of setup_object, by thread *)
  created : list (tid * obj);             (* every object returned by setup_object, with the calling thread *)
  failed : list tid;                      (* every setup_object call that raised *)
  accesses : list (tid * option obj);     (* every completed get_object call: what it returned (None = it raised) *)
  torn : list obj                         (* every call of teardown_object, chronological *)
}.

Definition init : state :=
  {| pcs := fun _ => Idle; locals := fun _ => None; objects := []; next := 0; td := TdNotCalled;
     setup_calls := []; created := []; failed := []; accesses := []; torn := [] |}.

Definition upd {A} (f : tid -> A) (t : tid) (v : A) : tid -> A := fun x => if Nat.eqb x t then v else f x.

Definition set_pc (s : state) (t : tid) (p : pc) : state :=
  {| pcs := upd (pcs s) t p; locals := locals s; objects := objects s; next := next s; td := td s;
     setup_calls := setup_calls s; created := created s; failed := failed s; accesses := accesses s; torn := torn s |}.

Definition step_thread (c : cfg) (t : tid) (s : state) : state :=
  match pcs s t with
  | Idle => set_pc s t AtRead
  | AtRead =>
      match locals s t with
      | Some o =>
          {| pcs := upd (pcs s) t Idle; locals := locals s; objects := objects s; next := next s; td := td s;
             setup_calls := setup_calls s; created := created s; failed := failed s;
             accesses := (t, Some o) :: accesses s; torn := torn s |}
      | None => set_pc s t AtSetup
      end
  | AtSetup =>
      {| pcs := upd (pcs s) t InSetup; locals := locals s; objects := objects s; next := next s; td := td s;
         setup_calls := t :: setup_calls s; created := created s; failed := failed s; accesses := accesses s;
         torn := torn s |}
  | InSetup =>
      if setup_fails c t (count_occ Nat.eq_dec (failed s) t) then
        {| pcs := upd (pcs s) t Idle; locals := locals s; objects := objects s; next := next s; td := td s;
           setup_calls := setup_calls s; created := created s; failed := t :: failed s;
           accesses := (t, None) :: accesses s; torn := torn s |}
      else
        {| pcs := upd (pcs s) t (AtStore (next s)); locals := locals s; objects := objects s; next := S (next s);
           td := td s; setup_calls := setup_calls s; created := (t, next s) :: created s; failed := failed s;
           accesses := accesses s; torn := torn s |}
  | AtStore o =>
      {| pcs := upd (pcs s) t (AtAppend o); locals := upd (locals s) t (Some o); objects := objects s; next := next s;
         td := td s; setup_calls := setup_calls s; created := created s; failed := failed s; accesses := accesses s;
         torn := torn s |}
  | AtAppend o =>
      {| pcs := upd (pcs s) t (AtReturn o); locals := locals s; objects := objects s ++ [o]; next := next s;
         td := td s; setup_calls := setup_calls s; created := created s; failed := failed s; accesses := accesses s;
         torn := torn s |}
  | AtReturn o =>
      {| pcs := upd (pcs s) t Idle; locals := locals s; objects := objects s; next := next s; td := td s;
         setup_calls := setup_calls s; created := created s; failed := failed s;
         accesses := (t, Some o) :: accesses s; torn := torn s |}
  end.

Definition set_td (s : state) (d : tdpc) (tn : list obj) : state :=
  {| pcs := pcs s; locals := locals s; objects := objects s; next := next s; td := d;
     setup_calls := setup_calls s; created := created s; failed := failed s; accesses := accesses s; torn := tn |}.

Definition step_main (c : cfg) (s : state) : state :=
  match td s with
  | TdNotCalled => set_td s TdInit (torn s)
  | TdInit => set_td s (TdFor 0 None) (torn s)
  | TdFor i ff =>
      match nth_error (objects s) i with
      | Some o => set_td s (TdTry i o ff) (torn s)
      | None => set_td s (TdIfFinal ff) (torn s)
      end
  | TdTry i o ff => set_td s (TdBody i o ff) (torn s)
  | TdBody i o ff =>
      set_td s (match td_outcome c o with TdOk => TdFor (S i) ff | TdExc => TdExcept i o ff | TdBaseExc => TdExceptBase o ff end)
             (torn s ++ [o])
  | TdExcept i o ff => set_td s (TdIfNone i o ff) (torn s)
  | TdExceptBase o _ => set_td s (TdAborted o) (torn s)
  | TdIfNone i o ff => set_td s (match ff with None => TdAssign i o | Some _ => TdFor (S i) ff end) (torn s)
  | TdAssign i o => set_td s (TdFor (S i) (Some o)) (torn s)
  | TdIfFinal ff => set_td s (match ff with None => TdDone | Some e => TdRaise e end) (torn s)
  | TdRaise e => set_td s (TdRaised e) (torn s)
  | TdDone => s
  | TdRaised _ => s
  | TdAborted _ => s
  end.

Inductive actor := Th (t : tid) | Main.

Definition step (c : cfg) (s : state) (a : actor) : state :=
  match a with
  | Th t => step_thread c t s
  | Main => step_main c s
  end.

Definition run_from (c : cfg) (s : state) (sch : list actor) : state := fold_left (step c) sch s.
Definition run (c : cfg) (sch : list actor) : state := run_from c init sch.

(* a thread is between the return of setup_object and the append *)
Definition in_flight (s : state) (t : tid) (o : obj) : Prop := pcs s t = AtStore o \/ pcs s t = AtAppend o.
(* teardown_factory has returned, or has raised first_failure at its last line *)
Definition td_finished (d : tdpc) : bool := match d with TdDone | TdRaised _ => true | _ => false end.
(* teardown_factory is past its loop: the for line has found the iterator exhausted *)
Definition after_loop (d : tdpc) : bool :=
  match d with TdIfFinal _ | TdRaise _ | TdDone | TdRaised _ => true | _ => false end.
(* the step [Main] executed after [sch] is the one in which teardown_factory returns or raises first_failure *)
Definition teardown_finishes_after (c : cfg) (sch : list actor) : Prop :=
  td_finished (td (run c sch)) = false /\ td_finished (td (run c (sch ++ [Main]))) = true.
(* the step [Main] executed after [sch] is the for line finding the iterator exhausted *)
Definition teardown_loop_ends_after (c : cfg) (sch : list actor) : Prop :=
  after_loop (td (run c sch)) = false /\ after_loop (td (run c (sch ++ [Main]))) = true.
(* at every moment of the run [sch] (after its first n steps, any n) at which teardown_factory is past its loop, no thread
   is between the return of setup_object and the append *)
Definition quiet_after_loop (c : cfg) (sch : list actor) : Prop :=
  forall n t o, after_loop (td (run c (firstn n sch))) = true -> ~ in_flight (run c (firstn n sch)) t o.

(* ------------------------------------------------------------------ the code BEFORE the repair (fixes/F21)
   teardown_factory was:   for obj in self._objects:            TdFor i _
                               self.teardown_object(obj)        TdBody i o _ ; any exception leaves the loop: TdRaised o
   Only C15_torn_down_after_raise_unfixed_refuted speaks about these definitions. *)
Definition step_main_unfixed (c : cfg) (s : state) : state :=
  match td s with
  | TdNotCalled => set_td s (TdFor 0 None) (torn s)
  | TdFor i _ =>
      match nth_error (objects s) i with
      | Some o => set_td s (TdBody i o None) (torn s)
      | None => set_td s TdDone (torn s)
      end
  | TdBody i o _ => set_td s (if td_fails c o then TdRaised o else TdFor (S i) None) (torn s ++ [o])
  | _ => s
  end.
Definition step_unfixed (c : cfg) (s : state) (a : actor) : state :=
  match a with
  | Th t => step_thread c t s
  | Main => step_main_unfixed c s
  end.
Definition run_unfixed (c : cfg) (sch : list actor) : state := fold_left (step_unfixed c) sch init.

(* ------------------------------------------------------------------ observation for the correspondence check *)
Definition pc_code (p : pc) : nat * nat :=
  match p with
  | Idle => (0, 0) | AtRead => (1, 0) | AtSetup => (2, 0) | InSetup => (3, 0)
  | AtStore o => (4, o) | AtAppend o => (5, o) | AtReturn o => (6, o)
  end.
(* line about to be executed by teardown_factory (0 = not called; 10/11/12 = returned / raised first_failure / left by a
   BaseException), the local first_failure (for 11/12: the exception that left the function), the loop variable obj *)
Definition td_code (d : tdpc) : nat * option obj * option obj :=
  match d with
  | TdNotCalled => (0, None, None)
  | TdInit => (1, None, None)
  | TdFor _ ff => (2, ff, None)
  | TdTry _ o ff => (3, ff, Some o)
  | TdBody _ o ff => (4, ff, Some o)
  | TdExcept _ o ff => (5, ff, Some o)
  | TdExceptBase o ff => (5, ff, Some o)
  | TdIfNone _ o ff => (6, ff, Some o)
  | TdAssign _ o => (7, None, Some o)
  | TdIfFinal ff => (8, ff, None)
  | TdRaise e => (9, Some e, None)
  | TdDone => (10, None, None)
  | TdRaised e => (11, Some e, None)
  | TdAborted o => (12, Some o, None)
  end.

Record observation := {
  o_setup_calls : list tid; o_created : list (tid * obj); o_failed : list tid;
  o_accesses : list (tid * option obj); o_torn : list obj; o_objects : list obj;
  o_td : nat * option obj * option obj; o_pcs : list (nat * nat); o_locals : list (option obj)
}.
(* logs in chronological order; pcs/locals of threads 0..n-1 *)
Definition observe (n : nat) (s : state) : observation :=
  {| o_setup_calls := rev (setup_calls s); o_created := rev (created s); o_failed := rev (failed s);
     o_accesses := rev (accesses s); o_torn := torn s; o_objects := objects s; o_td := td_code (td s);
     o_pcs := map (fun t => pc_code (pcs s t)) (seq 0 n); o_locals := map (locals s) (seq 0 n) |}.

(* configuration from finite tables (used by the case files) *)
(* sf: (thread, attempt) pairs whose setup_object raises; tf: objects whose teardown_object raises an Exception;
   tb: objects whose teardown_object raises a BaseException that is not an Exception *)
Definition cfg_of (sf : list (tid * nat)) (tf tb : list obj) : cfg :=
  {| setup_fails := fun t k => existsb (fun p => Nat.eqb (fst p) t && Nat.eqb (snd p) k) sf;
     td_outcome := fun o => if existsb (Nat.eqb o) tb then TdBaseExc else if existsb (Nat.eqb o) tf then TdExc else TdOk |}.
Definition no_failure : cfg := cfg_of [] [] [].
