(* Model of lemoncheesecake/helpers/threading.py : ThreadedFactory, and of fixture.py : _PerThreadFixtureResult on top of it.

   Small-step: every thread executes get_object() one source line at a time; the steps of different threads and of
   the code that calls teardown_factory() are interleaved by an arbitrary schedule (a list of actors).
   The program counter of a thread names the line it is ABOUT to execute (that is where the harness pauses the real
   thread with a sys.settrace line hook).

     def get_object(self):
         try:
   AtRead    return self._local.object            # AttributeError when this thread has no object yet
         except AttributeError:
   AtSetup   obj = self.setup_object()            # AtSetup: the call is made -> InSetup: inside user code -> returns/raises
   AtStore   self._local.object = obj
   AtAppend  self._objects.append(obj)
   AtReturn  return obj

     def teardown_factory(self):
   TdFor i   for obj in self._objects:            # list iterator with index i: sees elements appended meanwhile
   TdBody    self.teardown_object(obj)            # an exception leaves the loop (TdRaised)

   Python                                       | here
   ---------------------------------------------+--------------------------------------------------------------
   threading.local()  (self._local.object)      | locals : tid -> option obj        (per-thread map: ASSUMED semantics)
   self._objects / list.append (atomic, GIL)    | objects : list obj, appended at the end in one step (ASSUMED atomic)
   setup_object()  (user code, may raise)       | fresh object identity [next]; raises when cfg says so
   teardown_object(obj) (user code, may raise)  | recorded in [torn]; raises when cfg says so
   ThreadedFactory.get_object                   | step_thread
   ThreadedFactory.teardown_factory             | step_main (called once: ScheduledFixtures._teardown_fixture calls
                                                |   result.teardown() and then deletes the result)
   _PerThreadFixtureResult.get                  | get_object().get(): the value identity IS the object identity
   _PerThreadFixtureResult.setup_object         | _build_fixture_result_from_func: calls the fixture function (and next()
                                                |   for a generator fixture) = setup_object above
   _PerThreadFixtureResult.teardown_object      | result.teardown(): next() on a generator fixture, nothing for a plain one
   _PerThreadFixtureResult.teardown             | teardown_factory
   Logs (ghost state, read by the theorems and by the correspondence): setup_calls, created, failed, accesses, torn;
   they are kept most-recent-first, except [torn] (chronological).
   No proofs in this file. *)
From Coq Require Import List Arith Bool.
Import ListNotations.

Definition tid := nat.
Definition obj := nat.

Inductive pc :=
| Idle
| AtRead
| AtSetup
| InSetup
| AtStore (o : obj)
| AtAppend (o : obj)
| AtReturn (o : obj).

Inductive tdpc :=
| TdNotCalled
| TdFor (i : nat)
| TdBody (i : nat) (o : obj)
| TdDone
| TdRaised.

(* user code outcomes: setup_fails t k = the call of setup_object on thread t made after k earlier failures on that
   thread raises (a success ends the attempts of a thread); td_fails o = teardown_object(o) raises *)
Record cfg := { setup_fails : tid -> nat -> bool; td_fails : obj -> bool }.

Record state := {
  pcs : tid -> pc;
  locals : tid -> option obj;
  objects : list obj;
  next : obj;
  td : tdpc;
  setup_calls : list tid;                 (* every call of setup_object, by thread *)
  created : list (tid * obj);             (* every object returned by setup_object, with the calling thread *)
  failed : list tid;                      (* every setup_object call that raised *)
  accesses : list (tid * option obj);     (* every completed get_object call: what it returned (None = it raised) *)
  torn : list obj                         (* every call of teardown_object, chronological *)
}.

Definition init : state :=
  {| pcs := fun _ => Idle; locals := fun _ => None; objects := []; next := 0; td := TdNotCalled;
     setup_calls := []; created := []; failed := []; accesses := []; torn := [] |}.

Definition upd {A} (f : tid -> A) (t : tid) (v : A) : tid -> A := fun x => if Nat.eqb x t then v else f x.

Definition set_pc (s : state) (t : tid) (p : pc) : state :=
  {| pcs := upd (pcs s) t p; locals := locals s; objects := objects s; next := next s; td := td s;
     setup_calls := setup_calls s; created := created s; failed := failed s; accesses := accesses s; torn := torn s |}.

Definition step_thread (c : cfg) (t : tid) (s : state) : state :=
  match pcs s t with
  | Idle => set_pc s t AtRead
  | AtRead =>
      match locals s t with
      | Some o =>
          {| pcs := upd (pcs s) t Idle; locals := locals s; objects := objects s; next := next s; td := td s;
             setup_calls := setup_calls s; created := created s; failed := failed s;
             accesses := (t, Some o) :: accesses s; torn := torn s |}
      | None => set_pc s t AtSetup
      end
  | AtSetup =>
      {| pcs := upd (pcs s) t InSetup; locals := locals s; objects := objects s; next := next s; td := td s;
         setup_calls := t :: setup_calls s; created := created s; failed := failed s; accesses := accesses s;
         torn := torn s |}
  | InSetup =>
      if setup_fails c t (count_occ Nat.eq_dec (failed s) t) then
        {| pcs := upd (pcs s) t Idle; locals := locals s; objects := objects s; next := next s; td := td s;
           setup_calls := setup_calls s; created := created s; failed := t :: failed s;
           accesses := (t, None) :: accesses s; torn := torn s |}
      else
        {| pcs := upd (pcs s) t (AtStore (next s)); locals := locals s; objects := objects s; next := S (next s);
           td := td s; setup_calls := setup_calls s; created := (t, next s) :: created s; failed := failed s;
           accesses := accesses s; torn := torn s |}
  | AtStore o =>
      {| pcs := upd (pcs s) t (AtAppend o); locals := upd (locals s) t (Some o); objects := objects s; next := next s;
         td := td s; setup_calls := setup_calls s; created := created s; failed := failed s; accesses := accesses s;
         torn := torn s |}
  | AtAppend o =>
      {| pcs := upd (pcs s) t (AtReturn o); locals := locals s; objects := objects s ++ [o]; next := next s;
         td := td s; setup_calls := setup_calls s; created := created s; failed := failed s; accesses := accesses s;
         torn := torn s |}
  | AtReturn o =>
      {| pcs := upd (pcs s) t Idle; locals := locals s; objects := objects s; next := next s; td := td s;
         setup_calls := setup_calls s; created := created s; failed := failed s;
         accesses := (t, Some o) :: accesses s; torn := torn s |}
  end.

Definition set_td (s : state) (d : tdpc) (tn : list obj) : state :=
  {| pcs := pcs s; locals := locals s; objects := objects s; next := next s; td := d;
     setup_calls := setup_calls s; created := created s; failed := failed s; accesses := accesses s; torn := tn |}.

Definition step_main (c : cfg) (s : state) : state :=
  match td s with
  | TdNotCalled => set_td s (TdFor 0) (torn s)
  | TdFor i =>
      match nth_error (objects s) i with
      | Some o => set_td s (TdBody i o) (torn s)
      | None => set_td s TdDone (torn s)
      end
  | TdBody i o => set_td s (if td_fails c o then TdRaised else TdFor (S i)) (torn s ++ [o])
  | TdDone => s
  | TdRaised => s
  end.

Inductive actor := Th (t : tid) | Main.

Definition step (c : cfg) (s : state) (a : actor) : state :=
  match a with
  | Th t => step_thread c t s
  | Main => step_main c s
  end.

Definition run_from (c : cfg) (s : state) (sch : list actor) : state := fold_left (step c) sch s.
Definition run (c : cfg) (sch : list actor) : state := run_from c init sch.

(* a thread is between the return of setup_object and the append *)
Definition in_flight (s : state) (t : tid) (o : obj) : Prop := pcs s t = AtStore o \/ pcs s t = AtAppend o.
(* the step [Main] executed after [sch] is the one in which teardown_factory returns normally *)
Definition teardown_returns_after (c : cfg) (sch : list actor) : Prop :=
  td (run c sch) <> TdDone /\ td (run c (sch ++ [Main])) = TdDone.

(* ------------------------------------------------------------------ observation for the correspondence check *)
Definition pc_code (p : pc) : nat * nat :=
  match p with
  | Idle => (0, 0) | AtRead => (1, 0) | AtSetup => (2, 0) | InSetup => (3, 0)
  | AtStore o => (4, o) | AtAppend o => (5, o) | AtReturn o => (6, o)
  end.
Definition td_code (d : tdpc) : nat :=
  match d with TdNotCalled => 0 | TdFor _ => 1 | TdBody _ _ => 2 | TdDone => 3 | TdRaised => 4 end.

Record observation := {
  o_setup_calls : list tid; o_created : list (tid * obj); o_failed : list tid;
  o_accesses : list (tid * option obj); o_torn : list obj; o_objects : list obj;
  o_td : nat; o_pcs : list (nat * nat); o_locals : list (option obj)
}.
(* logs in chronological order; pcs/locals of threads 0..n-1 *)
Definition observe (n : nat) (s : state) : observation :=
  {| o_setup_calls := rev (setup_calls s); o_created := rev (created s); o_failed := rev (failed s);
     o_accesses := rev (accesses s); o_torn := torn s; o_objects := objects s; o_td := td_code (td s);
     o_pcs := map (fun t => pc_code (pcs s t)) (seq 0 n); o_locals := map (locals s) (seq 0 n) |}.

(* configuration from finite tables (used by the case files) *)
Definition cfg_of (sf : list (tid * nat)) (tf : list obj) : cfg :=
  {| setup_fails := fun t k => existsb (fun p => Nat.eqb (fst p) t && Nat.eqb (snd p) k) sf;
     td_fails := fun o => existsb (Nat.eqb o) tf |}.
Definition no_failure : cfg := cfg_of [] [].
