(* C09 — JSON values, Python-exception results, and the primitive encoders/decoders that the GENERATED definitions
   (gen/TablesCodec.v, translated from lemoncheesecake/reporting/backends/json_.py by harness/tables_codec.py) are built from.

   Python                                     Gallina
   -----------------------------------------  ------------------------------------------------------------
   raise X                                    Err X                       (type res)
   dict / list / str / int / bool / None      JObj / JArr / JStr / JNum / JBool / JNull  (1.1 is JFloat 11 (-1))
   d[k]                                       jget k d                    (KeyError when absent, TypeError when d is no dict)
   k in d                                     jhas k d
   d.get(k, None)                             jget_or_null k d
   d[k] = v  (new key)                        an entry appended to the literal (the translator rejects re-assignment)
   for x in json_list                         dec_arr j >>= mapM ...
   a JSON value stored into a typed field     dec_str / dec_ostr / dec_bool / dec_int / dec_strlist / dec_props / dec_info
     of the report normal form                (Python does not check anything there: a value of another type gives a report
                                               outside the normal form; the model reports it as Err NotNormalForm)
   json.dumps / json.loads                    MODELLED, not verified: json_norm.  ensure_ascii escapes every non-ASCII code point as
                                              \uXXXX, lone surrogates included, and the decoder joins an escaped high surrogate
                                              that is immediately followed by an escaped low surrogate into one astral character
                                              (merge_pairs): identity on strings without such a pair.  Objects are assumed to have
                                              pairwise distinct keys (Python dicts). A Python dict built from pairs keeps the LAST
                                              value of a repeated key at the position of its first occurrence: dict_of_pairs.
   node.properties / suite._tests (dicts)     dict_of_pairs (identity when the keys are pairwise distinct = unique_keys)
   No proofs in this file. *)
From Coq Require Import List NArith ZArith Bool.
Import ListNotations.
From LCC Require Import Base.Util Model.Report Model.Time.

Inductive err :=
| KeyError | TypeError | ValueError | AttributeError | OutOfFuel
| ReportLoadingError | UnicodeEncodeError | NotNormalForm.

Inductive res (A : Type) := Ok (a : A) | Err (e : err).
Arguments Ok {A} a.
Arguments Err {A} e.

Definition bind {A B} (r : res A) (f : A -> res B) : res B :=
  match r with Ok a => f a | Err e => Err e end.
Notation "x <- e ;; k" := (bind e (fun x => k)) (at level 61, e at next level, right associativity).
Notation "' p <- e ;; k" := (bind e (fun x => match x with p => k end))
  (at level 61, p pattern, e at next level, right associativity).

Fixpoint mapM {A B} (f : A -> res B) (l : list A) : res (list B) :=
  match l with
  | [] => Ok []
  | x :: r => y <- f x ;; ys <- mapM f r ;; Ok (y :: ys)
  end.

Definition of_option {A} (e : err) (o : option A) : res A := match o with Some x => Ok x | None => Err e end.
Definition is_some {A} (o : option A) : bool := match o with Some _ => true | None => false end.

Definition err_eqb (a b : err) : bool :=
  match a, b with
  | KeyError, KeyError | TypeError, TypeError | ValueError, ValueError | AttributeError, AttributeError
  | OutOfFuel, OutOfFuel | ReportLoadingError, ReportLoadingError | UnicodeEncodeError, UnicodeEncodeError
  | NotNormalForm, NotNormalForm => true
  | _, _ => false
  end.
Definition res_eqb {A} (eqb : A -> A -> bool) (a b : res A) : bool :=
  match a, b with
  | Ok x, Ok y => eqb x y
  | Err e, Err f => err_eqb e f
  | _, _ => false
  end.

(* ---------------- JSON values ---------------- *)
Inductive json :=
| JNull
| JBool (b : bool)
| JNum (z : Z)
| JFloat (mantissa exp10 : Z)
| JStr (s : str)
| JArr (l : list json)
| JObj (l : list (str * json)).

Fixpoint json_eqb (a b : json) {struct a} : bool :=
  match a, b with
  | JNull, JNull => true
  | JBool x, JBool y => Bool.eqb x y
  | JNum x, JNum y => Z.eqb x y
  | JFloat m e, JFloat m' e' => Z.eqb m m' && Z.eqb e e'
  | JStr x, JStr y => str_eqb x y
  | JArr l, JArr l' =>
      (fix go (l l' : list json) : bool :=
         match l, l' with
         | [], [] => true
         | x :: r, y :: r' => json_eqb x y && go r r'
         | _, _ => false
         end) l l'
  | JObj l, JObj l' =>
      (fix go (l l' : list (str * json)) : bool :=
         match l, l' with
         | [], [] => true
         | (k, x) :: r, (k', y) :: r' => str_eqb k k' && json_eqb x y && go r r'
         | _, _ => false
         end) l l'
  | _, _ => false
  end.

Fixpoint json_depth (j : json) : nat :=
  match j with
  | JArr l => S (fold_right (fun x acc => Nat.max (json_depth x) acc) 0 l)
  | JObj l => S (fold_right (fun kv acc => Nat.max (json_depth (snd kv)) acc) 0 l)
  | _ => 1
  end.

(* ---------------- the text layer: json.loads (json.dumps v) ---------------- *)
Definition hi_sur (c : N) : bool := (N.leb 55296 c && N.leb c 56319)%N.     (* D800..DBFF *)
Definition lo_sur (c : N) : bool := (N.leb 56320 c && N.leb c 57343)%N.     (* DC00..DFFF *)
Fixpoint merge_pairs (s : str) : str :=
  match s with
  | a :: ((b :: r') as r) =>
      if hi_sur a && lo_sur b then (65536 + (a - 55296) * 1024 + (b - 56320))%N :: merge_pairs r'
      else a :: merge_pairs r
  | _ => s
  end.
Fixpoint pairfree (s : str) : bool :=
  match s with
  | a :: ((b :: _) as r) => negb (hi_sur a && lo_sur b) && pairfree r
  | _ => true
  end.
Fixpoint json_norm (j : json) : json :=
  match j with
  | JStr s => JStr (merge_pairs s)
  | JArr l => JArr (map json_norm l)
  | JObj l => JObj (map (fun kv => (merge_pairs (fst kv), json_norm (snd kv))) l)
  | x => x
  end.
Fixpoint json_clean (j : json) : bool :=
  match j with
  | JStr s => pairfree s
  | JArr l => forallb json_clean l
  | JObj l => forallb (fun kv => pairfree (fst kv) && json_clean (snd kv)) l
  | _ => true
  end.

(* ---------------- association lists (Python dicts in insertion order) ---------------- *)
Fixpoint assoc {V} (k : str) (l : list (str * V)) : option V :=
  match l with
  | [] => None
  | (k', v) :: r => if str_eqb k k' then Some v else assoc k r
  end.
Definition has_key {V} (k : str) (l : list (str * V)) : bool := is_some (assoc k l).

(* d[k] = v on an insertion-ordered dict *)
Fixpoint dict_set {V} (k : str) (v : V) (l : list (str * V)) : list (str * V) :=
  match l with
  | [] => [(k, v)]
  | (k', v') :: r => if str_eqb k k' then (k, v) :: r else (k', v') :: dict_set k v r
  end.
(* dict(pairs) / {k: v for ...} / repeated add_test *)
Definition dict_of_pairs {V} (l : list (str * V)) : list (str * V) :=
  fold_left (fun d kv => dict_set (fst kv) (snd kv) d) l [].

Fixpoint nodup_keys (ks : list str) : bool :=
  match ks with
  | [] => true
  | k :: r => negb (existsb (str_eqb k) r) && nodup_keys r
  end.

(* ---------------- accessors of JSON values ---------------- *)
Definition jget (k : str) (j : json) : res json :=
  match j with
  | JObj l => of_option KeyError (assoc k l)
  | _ => Err TypeError
  end.
Definition jhas (k : str) (j : json) : bool :=
  match j with JObj l => has_key k l | _ => false end.
Definition jget_or_null (k : str) (j : json) : json :=
  match j with JObj l => match assoc k l with Some v => v | None => JNull end | _ => JNull end.
Definition jis_null (j : json) : bool := match j with JNull => true | _ => false end.

(* ---------------- typed <-> JSON (what is stored in the typed fields of the normal form) ---------------- *)
Definition enc_str (s : str) : json := JStr s.
Definition enc_ostr (o : option str) : json := match o with Some s => JStr s | None => JNull end.
Definition enc_bool (b : bool) : json := JBool b.
Definition enc_int (z : Z) : json := JNum z.
Definition enc_strlist (l : list str) : json := JArr (map JStr l).
Definition enc_props (l : list (str * str)) : json := JObj (map (fun kv => (fst kv, JStr (snd kv))) l).

Definition dec_str (j : json) : res str := match j with JStr s => Ok s | _ => Err NotNormalForm end.
Definition dec_ostr (j : json) : res (option str) :=
  match j with JStr s => Ok (Some s) | JNull => Ok None | _ => Err NotNormalForm end.
Definition dec_bool (j : json) : res bool := match j with JBool b => Ok b | _ => Err NotNormalForm end.
Definition dec_int (j : json) : res Z := match j with JNum z => Ok z | _ => Err NotNormalForm end.
(* iteration over a JSON value: only lists are in the normal form (iterating a dict or a str would not raise in Python) *)
Definition dec_arr (j : json) : res (list json) := match j with JArr l => Ok l | _ => Err NotNormalForm end.
Definition dec_strlist (j : json) : res (list str) := l <- dec_arr j ;; mapM dec_str l.
Definition dec_props (j : json) : res (list (str * str)) :=
  match j with
  | JObj l => mapM (fun kv => v <- dec_str (snd kv) ;; Ok (fst kv, v)) l
  | _ => Err NotNormalForm
  end.
Definition dec_info (j : json) : res (list (str * str)) :=
  l <- dec_arr j ;;
  mapM (fun p => match p with
                 | JArr [JStr n; JStr v] => Ok (n, v)
                 | _ => Err NotNormalForm
                 end) l.

(* times: parse_iso8601_time applied to a JSON value (s.rstrip raises AttributeError on a non-string) *)
Definition dec_time (tc : textcodec) (j : json) : res Z :=
  match j with
  | JStr s => of_option ValueError (tparse tc s)
  | _ => Err AttributeError
  end.
Definition enc_time (tc : textcodec) (z : Z) : json := JStr (tfmt tc z).

(* ---------------- normal-form invariants that come from Python dicts ---------------- *)
Definition meta_unique (m : meta) : bool := nodup_keys (map fst (m_properties m)).
Fixpoint suite_unique (s : suite_result) : bool :=
  match s with
  | SuiteResult m _ _ _ _ tests subs =>
      meta_unique m && forallb (fun t => meta_unique (t_meta t)) tests &&
      nodup_keys (map (fun t => m_name (t_meta t)) tests) && forallb suite_unique subs
  end.
(* property keys pairwise distinct in every node, test names pairwise distinct in every suite *)
Definition unique_keysb (r : report) : bool := forallb suite_unique (rp_suites r).
Definition unique_keys (r : report) : Prop := unique_keysb r = true.

(* BaseSuite.add_test: self._tests[test.name] = test *)
Definition tests_dict (l : list test_result) : list test_result :=
  map snd (dict_of_pairs (map (fun t => (m_name (t_meta t), t)) l)).

(* ---------------- equality of reports (for the case files) ---------------- *)
Definition oZ_eqb := option_eqb Z.eqb.
Definition ostr_eqb := option_eqb str_eqb.
Definition log_eqb (a b : steplog) : bool :=
  match a, b with
  | LLog l m t, LLog l' m' t' => str_eqb l l' && str_eqb m m' && Z.eqb t t'
  | LCheck d s x t, LCheck d' s' x' t' => str_eqb d d' && Bool.eqb s s' && ostr_eqb x x' && Z.eqb t t'
  | LAttachment d f i t, LAttachment d' f' i' t' => str_eqb d d' && str_eqb f f' && Bool.eqb i i' && Z.eqb t t'
  | LUrl d u t, LUrl d' u' t' => str_eqb d d' && str_eqb u u' && Z.eqb t t'
  | _, _ => false
  end.
Definition step_eqb (a b : step) : bool :=
  str_eqb (st_description a) (st_description b) && oZ_eqb (st_start a) (st_start b) &&
  oZ_eqb (st_end a) (st_end b) && list_eqb log_eqb (st_logs a) (st_logs b).
Definition result_eqb (a b : result) : bool :=
  oZ_eqb (r_start a) (r_start b) && oZ_eqb (r_end a) (r_end b) && ostr_eqb (r_status a) (r_status b) &&
  ostr_eqb (r_status_details a) (r_status_details b) && list_eqb step_eqb (r_steps a) (r_steps b).
Definition meta_eqb (a b : meta) : bool :=
  str_eqb (m_name a) (m_name b) && str_eqb (m_description a) (m_description b) &&
  list_eqb str_eqb (m_tags a) (m_tags b) && list_eqb (pair_eqb str_eqb str_eqb) (m_properties a) (m_properties b) &&
  list_eqb (pair_eqb str_eqb ostr_eqb) (m_links a) (m_links b).
Definition test_eqb (a b : test_result) : bool :=
  meta_eqb (t_meta a) (t_meta b) && result_eqb (t_result a) (t_result b).
Fixpoint suite_eqb (a b : suite_result) {struct a} : bool :=
  match a, b with
  | SuiteResult m s e su td ts subs, SuiteResult m' s' e' su' td' ts' subs' =>
      meta_eqb m m' && oZ_eqb s s' && oZ_eqb e e' && option_eqb result_eqb su su' && option_eqb result_eqb td td' &&
      list_eqb test_eqb ts ts' &&
      (fix go (l l' : list suite_result) : bool :=
         match l, l' with
         | [], [] => true
         | x :: r, y :: r' => suite_eqb x y && go r r'
         | _, _ => false
         end) subs subs'
  end.
Definition report_eqb (a b : report) : bool :=
  str_eqb (rp_title a) (rp_title b) && list_eqb (pair_eqb str_eqb str_eqb) (rp_info a) (rp_info b) &&
  oZ_eqb (rp_start a) (rp_start b) && oZ_eqb (rp_end a) (rp_end b) && oZ_eqb (rp_saving a) (rp_saving b) &&
  Z.eqb (rp_nb_threads a) (rp_nb_threads b) && option_eqb result_eqb (rp_session_setup a) (rp_session_setup b) &&
  option_eqb result_eqb (rp_session_teardown a) (rp_session_teardown b) && list_eqb suite_eqb (rp_suites a) (rp_suites b).

Definition with_saving (t : option Z) (r : report) : report :=
  mkReport (rp_title r) (rp_info r) (rp_start r) (rp_end r) t (rp_nb_threads r)
           (rp_session_setup r) (rp_session_teardown r) (rp_suites r).
