(* A file system with crashes, for `save_report_into_file` (reporting/backends/json_.py, xml.py, junit.py).  No proofs here.

   MODEL (stated, not verified -- DESIGN section 5 C10 "partial: OS crash semantics modelled"):
     * the file system is a finite map  path -> content  (an association list; content = list of abstract bytes);
     * the operations below are ATOMIC and take effect IMMEDIATELY and IN PROGRAM ORDER (no buffering, no reordering by the OS,
       no torn write, no fsync reasoning: Flush / Fsync / Close are recorded but do not change the map);
     * the process may die (or a concurrent reader may look) BETWEEN ANY TWO OPERATIONS: the states an observer can find are
       exactly `exec (firstn k ops) fs0` for k = 0 .. length ops  (`crash_states`);
     * a file handle is identified with the path it was opened on (both save sequences close the handle before any rename).
   The real code buffers `fh.write` in user space: at a real crash the file holds a PREFIX of what the model says was written
   to it; the theorems about the atomic sequence do not depend on the content of the temporary file at all, and the refutation
   for the in-place sequence uses the crash point right after the truncating open, where both agree (empty file).
   The harness replays the real save code with every operation interposed (each write flushed) and killed at each k, and
   compares the directory found with `exec` (harness/impl_crash.py, props/c10.py).

   Python                                                   Gallina
   -------------------------------------------------------- -----------------------------------------------
   open(path, "w")                                          OpenTrunc path     (creates or truncates)
   fh.write(chunk)                                          Write path chunk   (appends)
   fh.flush() / os.fsync(fh.fileno()) / fh.close()          Flush / Fsync / Close path
   os.replace(src, dst)                                     Rename src dst     (atomically replaces dst; src disappears)
   os.unlink(path)                                          Unlink path
   pinned tree:  with open(filename, "w") as fh: fh.write.. save_inplace final chunks
   fixed tree (fixes/F05): tmp = filename + ".tmp";         save_atomic tmp final chunks
     open(tmp,"w"); write*; flush; fsync; close; os.replace(tmp, filename) *)
From Coq Require Import List Arith Bool.
Import ListNotations.

Definition fpath := nat.
Definition data := list nat.
Definition fsys := list (fpath * data).

Inductive op :=
| OpenTrunc (p : fpath)
| Write (p : fpath) (d : data)
| Flush (p : fpath)
| Fsync (p : fpath)
| Close (p : fpath)
| Rename (src dst : fpath)
| Unlink (p : fpath).

Fixpoint lookup (p : fpath) (f : fsys) : option data :=
  match f with
  | [] => None
  | (q, c) :: r => if Nat.eqb q p then Some c else lookup p r
  end.

Fixpoint remove (p : fpath) (f : fsys) : fsys :=
  match f with
  | [] => []
  | (q, c) :: r => if Nat.eqb q p then remove p r else (q, c) :: remove p r
  end.

Definition set (p : fpath) (c : data) (f : fsys) : fsys := (p, c) :: remove p f.

Definition exec_op (f : fsys) (o : op) : fsys :=
  match o with
  | OpenTrunc p => set p [] f
  | Write p d => match lookup p f with Some c => set p (c ++ d) f | None => f end    (* never happens in a save: opened first *)
  | Flush _ | Fsync _ | Close _ => f
  | Rename src dst => match lookup src f with Some c => set dst c (remove src f) | None => f end
  | Unlink p => remove p f
  end.

Definition exec (ops : list op) (f : fsys) : fsys := fold_left exec_op ops f.

(* every state a crash (or a concurrent reader) can find while `ops` runs from f *)
Definition crash_states (ops : list op) (f : fsys) : list fsys :=
  map (fun k => exec (firstn k ops) f) (seq 0 (S (length ops))).

(* the two shapes of save_report_into_file *)
Definition save_inplace (final : fpath) (chunks : list data) : list op :=
  OpenTrunc final :: map (Write final) chunks ++ [Close final].

Definition save_atomic (tmp final : fpath) (chunks : list data) : list op :=
  OpenTrunc tmp :: map (Write tmp) chunks ++ [Flush tmp; Fsync tmp; Close tmp; Rename tmp final].

(* a whole run: one save per snapshot, `ser` being the serializer (what the backend writes, chunk by chunk) *)
Definition history_ops {S} (save : list data -> list op) (ser : S -> list data) (snaps : list S) : list op :=
  flat_map (fun s => save (ser s)) snaps.

(* the complete image of a snapshot *)
Definition image {S} (ser : S -> list data) (s : S) : data := concat (ser s).

(* executable comparison of an observed directory with a model state (correspondence) *)
Definition data_eqb (a b : data) : bool := (fix go (a b : data) : bool :=
  match a, b with [] , [] => true | x :: a', y :: b' => Nat.eqb x y && go a' b' | _, _ => false end) a b.
Definition odata_eqb (a b : option data) : bool :=
  match a, b with None, None => true | Some x, Some y => data_eqb x y | _, _ => false end.
(* same content on every path of `paths` *)
Definition same_on (paths : list fpath) (f g : fsys) : bool :=
  forallb (fun p => odata_eqb (lookup p f) (lookup p g)) paths.
