(* Report datatypes shared by C09 (save/load), C18 (replay), C20 (views), C10 (snapshots) and the writer model.
   This is the *normal form* of lemoncheesecake.reporting.report.Report (DESIGN.md appendix A.3):
     - children of a suite / of the report are listed in accessor order (get_tests()/get_suites(): stable sort by rank of
       the insertion order); `rank` itself is not part of the normal form (it is not serialized: loaded nodes have rank 0
       and keep the saved order);
     - times are integer milliseconds (Z); `None` where Python allows None;
     - strings are lists of Unicode code points (N), so control characters, astral characters and lone surrogates are values;
     - `properties` is the dict in insertion order (list of pairs, keys pairwise distinct = `unique_keys`);
     - parent pointers (parent_suite, parent_step, parent_result) and the bound backend/path are not data.
   No proofs in this file. *)
From Coq Require Import List NArith ZArith Bool.
Import ListNotations.
From LCC Require Import Base.Util.

Definition str := list N.
Definition str_eqb : str -> str -> bool := list_eqb N.eqb.

(* constants used by the code: Log.LEVEL_*, Result.STATUSES *)
Definition s_debug : str := [100; 101; 98; 117; 103]%N.
Definition s_info : str := [105; 110; 102; 111]%N.
Definition s_warn : str := [119; 97; 114; 110]%N.
Definition s_error : str := [101; 114; 114; 111; 114]%N.
Definition s_passed : str := [112; 97; 115; 115; 101; 100]%N.
Definition s_failed : str := [102; 97; 105; 108; 101; 100]%N.
Definition s_skipped : str := [115; 107; 105; 112; 112; 101; 100]%N.
Definition s_disabled : str := [100; 105; 115; 97; 98; 108; 101; 100]%N.

(* StepLog subclasses *)
Inductive steplog :=
| LLog (level message : str) (time : Z)
| LCheck (description : str) (is_successful : bool) (details : option str) (time : Z)
| LAttachment (description filename : str) (as_image : bool) (time : Z)
| LUrl (description url : str) (time : Z).

Record step := mkStep {
  st_description : str;
  st_start : option Z;
  st_end : option Z;
  st_logs : list steplog }.

(* Result (setup / teardown phases) and the Result part of TestResult *)
Record result := mkResult {
  r_start : option Z;
  r_end : option Z;
  r_status : option str;
  r_status_details : option str;
  r_steps : list step }.

(* BaseTreeNode metadata *)
Record meta := mkMeta {
  m_name : str;
  m_description : str;
  m_tags : list str;
  m_properties : list (str * str);
  m_links : list (str * option str) }.      (* (url, name or None) *)

Record test_result := mkTest { t_meta : meta; t_result : result }.

Inductive suite_result :=
| SuiteResult (s_meta : meta) (s_start s_end : option Z)
              (s_setup s_teardown : option result)
              (s_tests : list test_result) (s_suites : list suite_result).

Record report := mkReport {
  rp_title : str;
  rp_info : list (str * str);
  rp_start : option Z;
  rp_end : option Z;
  rp_saving : option Z;          (* report.saving_time, set by the serializers at save time *)
  rp_nb_threads : Z;
  rp_session_setup : option result;
  rp_session_teardown : option result;
  rp_suites : list suite_result }.

Definition s_meta_of (s : suite_result) := match s with SuiteResult m _ _ _ _ _ _ => m end.
Definition s_start_of (s : suite_result) := match s with SuiteResult _ a _ _ _ _ _ => a end.
Definition s_end_of (s : suite_result) := match s with SuiteResult _ _ e _ _ _ _ => e end.
Definition s_setup_of (s : suite_result) := match s with SuiteResult _ _ _ x _ _ _ => x end.
Definition s_teardown_of (s : suite_result) := match s with SuiteResult _ _ _ _ x _ _ => x end.
Definition s_tests_of (s : suite_result) := match s with SuiteResult _ _ _ _ _ t _ => t end.
Definition s_suites_of (s : suite_result) := match s with SuiteResult _ _ _ _ _ _ u => u end.

(* ---------------- success predicates (report.py) ---------------- *)
(* Step._is_log_successful *)
Definition log_successful (l : steplog) : bool :=
  match l with
  | LCheck _ ok _ _ => ok
  | LLog level _ _ => negb (str_eqb level s_error)
  | _ => true
  end.
(* Step.is_successful *)
Definition step_successful (s : step) : bool := forallb log_successful (st_logs s).
(* Result.is_successful: `if self.status:` is a truthiness test: None and "" both mean "not finished" *)
Definition result_successful (r : result) : bool :=
  match r_status r with
  | Some ((_ :: _) as st) => str_eqb st s_passed || str_eqb st s_disabled
  | _ => forallb step_successful (r_steps r)
  end.

(* ---------------- traversals : testtree flatten functions, report.flatten_results, Report.all_xxx ---------------- *)
Fixpoint flatten_suite (s : suite_result) : list suite_result :=
  match s with SuiteResult _ _ _ _ _ _ subs => s :: flat_map flatten_suite subs end.
Definition flatten_suites (l : list suite_result) : list suite_result := flat_map flatten_suite l.
Definition all_tests (r : report) : list test_result := flat_map s_tests_of (flatten_suites (rp_suites r)).

(* a result tagged with where it sits; all_results yields setups, tests, teardowns in this order *)
Inductive rkind := KSessionSetup | KSessionTeardown | KSuiteSetup | KSuiteTeardown | KTest.
Definition opt_list {A} (o : option A) : list A := match o with Some x => [x] | None => [] end.
Definition suite_results (s : suite_result) : list (rkind * result) :=
  map (fun r => (KSuiteSetup, r)) (opt_list (s_setup_of s)) ++
  map (fun t => (KTest, t_result t)) (s_tests_of s) ++
  map (fun r => (KSuiteTeardown, r)) (opt_list (s_teardown_of s)).
Definition all_results (r : report) : list (rkind * result) :=
  map (fun x => (KSessionSetup, x)) (opt_list (rp_session_setup r)) ++
  flat_map suite_results (flatten_suites (rp_suites r)) ++
  map (fun x => (KSessionTeardown, x)) (opt_list (rp_session_teardown r)).

(* Report.is_successful: all(result.status in ("passed","disabled") for result in all_results()) *)
Definition status_ok (r : result) : bool :=
  match r_status r with Some st => str_eqb st s_passed || str_eqb st s_disabled | None => false end.
Definition report_successful (r : report) : bool := forallb (fun kr => status_ok (snd kr)) (all_results r).

(* ---------------- structural induction helper: size ---------------- *)
Fixpoint suite_depth (s : suite_result) : nat :=
  match s with SuiteResult _ _ _ _ _ _ subs => S (fold_right (fun x acc => Nat.max (suite_depth x) acc) 0 subs) end.
