(* C13 — Suite discovery finds exactly the declared tests at the declared paths.
   Only statements here; proofs and the source-level specification (declared_item / declared_module / declared_dir: what a
   source tree DECLARES, written without sorting, ranks or error handling) are in Proofs/LoaderP.v; the model of the loader is
   Model/Loader.v.  [load fixed rank0 root] is load_suites_from_directory(root) with Metadata._next_rank = rank0;
   fixed = true is the loader with fixes/F16-*.patch (the companion directory of a hidden module is skipped), fixed = false
   the loader before that fix.  [prepared fixed rank0 root] is the tree as the loader sees it: directory listings sorted and
   every symbol annotated with the rank the import pass gives it (the specification does not look at ranks).
   Modelled, not verified: importlib, dir(), inspect, decorator evaluation order (the rank counter), sorted(glob/listdir). *)
From Coq Require Import List Arith NArith Permutation.
Import ListNotations.
From Coq Require Import Sorted.
From LCC Require Import Model.Loader Proofs.LoaderP Proofs.LoaderOrderP Proofs.LoaderInvP.

(* For ALL layouts (any nesting of directories, modules with or without SUITE / companion directory, classes, nested classes,
   single-class collapse, hidden / visible_if / disabled / parametrized symbols, shadowed attributes, any explicit ranks, any
   starting value of the rank counter) in which the names within one directory are distinct: whenever the (fixed) loader
   returns a tree, the tests in it -- with the names AND tags / properties / links of their enclosing suites (the path, a list of
   [pnode]), their name, description, disabled flag, tags, properties, links and parameters ([obs_of] = path and [tinfo] of a
   loaded test) -- are EXACTLY the visible tests the source tree declares: each exactly once (equality of multisets), nothing
   else.  [declared_dir [] root] is evaluated on the source tree itself; a declared test carries ([mk_info]) the tags of its @lcc.tags decorator, the properties [declared_props] of its
   @lcc.prop decorators, the links [declared_links] of its @lcc.link decorators and its disabled flag; a parametrized test
   declares one test per parameter set, each with the tags, properties and links of the symbol. *)
Theorem C13_exact : forall (rank0 : nat) (root : dir) (suites : list lsuite),
  names_ok root -> load true rank0 root = Ok suites ->
  Permutation (map obs_of (flat_all [] suites)) (declared_dir [] root).
Proof. exact load_exact_source. Qed.
Print Assumptions C13_exact.

(* the same below a module, for every module (no hypothesis on names) and every prefix path; the suite the module is loaded
   as has the name and the tags / properties / links ([ls_node]) the module declares ([merged_node]: those of its SUITE dict,
   or of its only class when the module collapses into it) *)
Theorem C13_exact_module : forall (m : mdecl) (s : lsuite), load_module m = Ok s ->
  (forall p, Permutation (map obs_of (flat_all p (filter nh [s]))) (declared_module p m)) /\
  ls_node s = merged_node m /\ ls_hidden s = mod_hidden m.
Proof. exact load_module_exact. Qed.
Print Assumptions C13_exact_module.

(* what "declared metadata" is.  (1) every test loaded from a test symbol -- the test itself or each of its parameter sets --
   carries the tags, the properties, the links and the disabled flag of the symbol. *)
Theorem C13_test_metadata : forall (rank : nat) (d : tdecl) (t : ltest), In t (expand_test rank d) ->
  lt_tags t = t_tags d /\ lt_props t = declared_props (t_props d) /\ lt_links t = declared_links (t_links d) /\
  lt_disabled t = t_disabled d /\ lt_rank t = rank.
Proof. exact expand_test_metadata. Qed.
Print Assumptions C13_test_metadata.

(* (2) the properties declared by a stack of @lcc.prop decorators (listed top to bottom): one entry per key, the value is the
   one of the topmost decorator of that key ([dict_get] = first match), the keys are those of the decorators; the links
   declared by @lcc.link decorators are all of them (with repetitions), bottom-up. *)
Theorem C13_properties_meaning : forall (calls : list (str * str)) (k : str),
  dict_get k (declared_props calls) = dict_get k calls /\ NoDup (keys (declared_props calls)) /\
  (In k (keys (declared_props calls)) <-> In k (map fst calls)).
Proof. intros. split; [apply declared_props_get|split; [apply declared_props_NoDup|apply declared_props_keys]]. Qed.
Print Assumptions C13_properties_meaning.

(* (3) suites: a class suite carries the tags / properties / links of its decorators; a module suite those of its SUITE dict
   ("properties": one entry per key of the literal, value written last; "links": a bare "url" stands for ("url", None)),
   or, when it collapses into its single class, those of that class; a module without SUITE has none. *)
Theorem C13_suite_metadata :
  (forall (rank : nat) (c : cdecl) (body : list item) (r : list lsuite), load_class (IClass rank c body) = Ok r ->
     exists s, r = [s] /\ ls_name s = class_name c /\ ls_meta s = declared_class_meta c) /\
  (forall (m : mdecl) (s : lsuite), load_module m = Ok s -> collapses m = false -> ls_meta s = declared_mod_meta m) /\
  (forall (m : mdecl) (s : lsuite), load_module m = Ok s -> collapses m = true ->
     exists rank c body, visible_classes (m_items m) = [IClass rank c body] /\ ls_meta s = declared_class_meta c).
Proof. split; [exact load_class_meta|split; [exact load_module_meta|exact load_module_meta_collapsed]]. Qed.
Print Assumptions C13_suite_metadata.

(* hidden items are omitted: everything loaded is declared, and what is hidden declares nothing -- a hidden test, a hidden
   class (with everything in it), a hidden module, and the companion directory of a hidden module; no hidden suite is ever
   part of the loaded tree (any variant of the loader) *)
Theorem C13_hidden_omitted : forall (rank0 : nat) (root : dir) (suites : list lsuite),
  names_ok root -> load true rank0 root = Ok suites ->
  (forall path t, In (path, t) (flat_all [] suites) -> In (path, info_of t) (declared_dir [] root)) /\
  (forall p it, item_hidden it = true -> declared_item p it = []) /\
  (forall p m, mod_hidden m = true -> declared_module p m = []) /\
  (forall p mods x m, find (file_is (dir_name x)) mods = Some m -> mod_hidden m = true -> sub_spec declared_dir p mods x = []).
Proof.
  intros rank0 root suites Hn H. split.
  - intros path t Hin. eapply Permutation_in; [apply (load_exact_source _ _ _ Hn H)|].
    change (path, info_of t) with (obs_of (path, t)). apply in_map. assumption.
  - split; [exact hidden_item_declares_nothing|]. split; [exact hidden_module_declares_nothing|exact hidden_module_dir_declares_nothing].
Qed.
Print Assumptions C13_hidden_omitted.

(* F16: before the fix the statement is false: foo.py hidden by SUITE visible_if, foo/bar.py declares test u:
   the loader returns suite foo > bar > u although the tree declares nothing *)
Definition t_plain (a : str) : item :=
  ITest 0 {| t_attr := a; t_name := None; t_desc := None; t_cond := None; t_disabled := false; t_tags := []; t_props := []; t_links := []; t_params := None |}.
Definition f16_tree : dir :=
  Dir [] [{| m_file := [102; 111; 111]%N; m_suite := Some {| s_name := None; s_desc := None; s_rank := None; s_cond := Some false; s_tags := []; s_props := []; s_links := [] |};
             m_rank := 0; m_items := [t_plain [116%N]] |}]
         [Dir [102; 111; 111]%N [{| m_file := [98; 97; 114]%N; m_suite := None; m_rank := 0; m_items := [t_plain [117%N]] |}] []].
Theorem C13_hidden_omitted_refuted : exists (root : dir) (suites : list lsuite) (path : list pnode) (t : ltest),
  names_ok root /\ load false 1 root = Ok suites /\ In (path, t) (flat_all [] suites) /\
  declared_dir [] root = [] /\ load true 1 root = Ok [].
Proof.
  exists f16_tree. eexists. eexists. eexists. split; [|split; [vm_compute; reflexivity|split; [vm_compute; left; reflexivity|split; vm_compute; reflexivity]]].
  vm_compute. repeat (constructor; simpl; try tauto; try (intros [H|H]; [discriminate|tauto])).
Qed.
Print Assumptions C13_hidden_omitted_refuted.

(* duplicates: whatever the loader (either variant) returns has, in EVERY suite at every depth, pairwise distinct test names,
   test descriptions, sub-suite names and sub-suite descriptions, and no hidden suite ... *)
Theorem C13_duplicates_rejected : forall (fixed : bool) (rank0 : nat) (root : dir) (suites : list lsuite),
  load fixed rank0 root = Ok suites ->
  Forall (all_nodes node_ok) suites /\ Forall (fun s => ls_hidden s = false) suites.
Proof. exact loaded_unique. Qed.
Print Assumptions C13_duplicates_rejected.

(* ... and duplicates are the only reason for Suite.add_test / Suite.add_suite to reject *)
Theorem C13_duplicates_rejected_iff : forall (tests : list ltest) (subs : list lsuite),
  ((exists r, add_tests [] tests = Ok r) <-> NoDup (map lt_name tests) /\ NoDup (map lt_desc tests)) /\
  ((exists r, add_suites [] subs = Ok r) <-> NoDup (map ls_name subs) /\ NoDup (map ls_desc subs)).
Proof. intros. split; [apply add_tests_iff|apply add_suites_iff]. Qed.
Print Assumptions C13_duplicates_rejected_iff.

(* order.  (1) In every scope the symbols are taken in rank order (tests, and sub-suite classes with or without rank=). *)
Theorem C13_order_by_rank : forall (f : item -> bool) (body : list item),
  StronglySorted (fun a b => item_rank a <= item_rank b) (symbols f body).
Proof. exact symbols_sorted. Qed.
Print Assumptions C13_order_by_rank.

(* (2) Rank order IS declaration order: for every scope (module or class body, at any depth: [body] and the counter [n] are
   arbitrary), after the import pass the symbols selected by [f] -- all tests; all suite classes that have no rank= -- come
   out exactly in the order in which they are written in the source (shadowed definitions dropped), whatever their names. *)
Theorem C13_order : forall (f : item -> bool) (body : list item) (n : nat),
  (forall x, f x = true -> auto_ranked x = true) ->
  symbols f (fst (rank_items n body)) = filter f (dedupe_last (fst (rank_items n body))).
Proof. exact order_of_scope. Qed.
Print Assumptions C13_order.

(* in particular the tests of a scope (with their parameter sets in the order of the parameter source) *)
Theorem C13_order_tests : forall (body : list item) (n : nat),
  load_tests_of (fst (rank_items n body)) = flat_map expand_item (filter is_test (dedupe_last (fst (rank_items n body)))).
Proof. exact tests_in_declaration_order. Qed.
Print Assumptions C13_order_tests.

(* ---- non-vacuity: a layout with a companion directory, a single-class collapse, a nested class, a hidden test, a
   parametrized test with default naming and an explicit rank: the hypotheses of C13_exact hold and five tests are loaded *)
Definition c_ (a : str) (rk : option nat) (body : list item) : item :=
  IClass 0 {| c_attr := a; c_name := None; c_desc := None; c_rank := rk; c_cond := None; c_disabled := false; c_tags := []; c_props := []; c_links := [] |} body.
Definition t_hidden (a : str) : item :=
  ITest 0 {| t_attr := a; t_name := None; t_desc := None; t_cond := Some false; t_disabled := false; t_tags := []; t_props := []; t_links := []; t_params := None |}.
Definition t_param (a : str) (vals : list nat) : item :=
  ITest 0 {| t_attr := a; t_name := None; t_desc := None; t_cond := None; t_disabled := true; t_tags := [[120%N]];
             t_props := [([107%N], [49%N]); ([106%N], [50%N]); ([107%N], [51%N])];      (* @lcc.prop("k","1") @lcc.prop("j","2") @lcc.prop("k","3") *)
             t_links := [([117%N], None); ([118%N], Some [110%N])];                     (* @lcc.link("u") @lcc.link("v","n") *)
             t_params := Some (vals, NDefault) |}.
Definition witness_tree : dir :=
  Dir [] [ {| m_file := [98%N]; m_suite := None; m_rank := 0;
              m_items := [c_ [98%N] None [t_plain [122%N]; t_hidden [104%N]; c_ [110%N] (Some 0) [t_param [112%N] [7; 9]]]] |};
           {| m_file := [97%N]; m_suite := Some {| s_name := None; s_desc := None; s_rank := None; s_cond := None; s_tags := [];
                                      s_props := [([112%N], [49%N]); ([112%N], [50%N])]; s_links := [LStr [117%N]; LPair [118%N] (Some [110%N])] |};
              m_rank := 0; m_items := [t_plain [116%N]] |} ]
         [Dir [98%N] [{| m_file := [99%N]; m_suite := None; m_rank := 0; m_items := [t_plain [117%N]] |}] []].
Example C13_witness :
  names_ok witness_tree /\
  exists suites, load true 1 witness_tree = Ok suites /\
    map (fun pt => (map fst (fst pt), lt_name (snd pt))) (flat_all [] suites) =
      [([[97%N]], [116%N]); ([[98%N]], [122%N]); ([[98%N]; [110%N]], [112; 95; 49]%N); ([[98%N]; [110%N]], [112; 95; 50]%N);
       ([[98%N]; [99%N]], [117%N])] /\
    (* both parameter sets of p carry {"k": "1", "j": "2"} (keys bottom-up, value of the topmost decorator) and the links
       [("v", "n"), ("u", None)]; the module suite a carries {"p": "2"} and [("u", None), ("v", "n")] *)
    map (fun pt => (lt_props (snd pt), lt_links (snd pt))) (filter (fun pt => match lt_param (snd pt) with Some _ => true | None => false end) (flat_all [] suites)) =
      [([([107%N], [49%N]); ([106%N], [50%N])], [([118%N], Some [110%N]); ([117%N], None)]);
       ([([107%N], [49%N]); ([106%N], [50%N])], [([118%N], Some [110%N]); ([117%N], None)])] /\
    map ls_meta suites = [ {| md_tags := []; md_props := [([112%N], [50%N])]; md_links := [([117%N], None); ([118%N], Some [110%N])] |}; no_meta ].
Proof.
  split.
  - repeat (constructor; simpl; try tauto; try (intros [H|H]; [discriminate|tauto])).
  - eexists. split; [|split; [|split]]; vm_compute; reflexivity.
Qed.
