(* C13 — Suite discovery finds exactly the declared tests at the declared paths.
   Only statements here; proofs and the source-level specification (declared_item / declared_module / declared_dir: what a
   source tree DECLARES, written without sorting, ranks or error handling) are in Proofs/LoaderP.v; the model of the loader is
   Model/Loader.v.  [load fixed rank0 root] is load_suites_from_directory(root) with Metadata._next_rank = rank0;
   fixed = true is the loader with fixes/F16-*.patch (the companion directory of a hidden module is skipped), fixed = false
   the loader before that fix.  [prepared fixed rank0 root] is the tree as the loader sees it: directory listings sorted and
   every symbol annotated with the rank the import pass gives it (the specification does not look at ranks).
   Modelled, not verified: importlib, dir(), inspect, decorator evaluation order (the rank counter), sorted(glob/listdir). *)
From Coq Require Import List Arith NArith Permutation.
Import ListNotations.
From LCC Require Import Model.Loader Proofs.LoaderP.

(* For ALL layouts (any nesting of directories, modules with or without SUITE / companion directory, classes, nested classes,
   single-class collapse, hidden / visible_if / disabled / parametrized symbols, shadowed attributes, any ranks): whenever the
   (fixed) loader returns a tree, the tests in it -- with the names of their enclosing suites, their name, description,
   disabled flag, tags and parameters -- are EXACTLY the declared visible tests: each exactly once (equality of multisets),
   nothing else. *)
Theorem C13_exact : forall (rank0 : nat) (root : dir) (suites : list lsuite),
  names_ok (prepared true rank0 root) -> load true rank0 root = Ok suites ->
  Permutation (map obs_of (flat_all [] suites)) (declared_dir [] (prepared true rank0 root)).
Proof. exact load_exact. Qed.
Print Assumptions C13_exact.

(* the same below a module, for every module (no hypothesis on names) and every prefix path *)
Theorem C13_exact_module : forall (m : mdecl) (s : lsuite), load_module m = Ok s ->
  (forall p, Permutation (map obs_of (flat_all p (filter nh [s]))) (declared_module p m)) /\
  ls_name s = merged_name m /\ ls_hidden s = mod_hidden m.
Proof. exact load_module_exact. Qed.
Print Assumptions C13_exact_module.

(* hidden items are omitted: everything loaded is declared, and what is hidden declares nothing -- a hidden test, a hidden
   class (with everything in it), a hidden module, and the companion directory of a hidden module; no hidden suite is ever
   part of the loaded tree (any variant of the loader) *)
Theorem C13_hidden_omitted : forall (rank0 : nat) (root : dir) (suites : list lsuite),
  names_ok (prepared true rank0 root) -> load true rank0 root = Ok suites ->
  (forall path t, In (path, t) (flat_all [] suites) -> In (path, info_of t) (declared_dir [] (prepared true rank0 root))) /\
  (forall p it, item_hidden it = true -> declared_item p it = []) /\
  (forall p m, mod_hidden m = true -> declared_module p m = []) /\
  (forall p mods x m, find (file_is (dir_name x)) mods = Some m -> mod_hidden m = true -> sub_spec declared_dir p mods x = []).
Proof.
  intros. split; [eapply loaded_subset_declared; eassumption|]. split; [exact hidden_item_declares_nothing|].
  split; [exact hidden_module_declares_nothing|exact hidden_module_dir_declares_nothing].
Qed.
Print Assumptions C13_hidden_omitted.

(* F16: before the fix the statement is false: foo.py hidden by SUITE visible_if, foo/bar.py declares test u:
   the loader returns suite foo > bar > u although the tree declares nothing *)
Definition t_plain (a : str) : item :=
  ITest 0 {| t_attr := a; t_name := None; t_desc := None; t_cond := None; t_disabled := false; t_tags := []; t_params := None |}.
Definition f16_tree : dir :=
  Dir [] [{| m_file := [102; 111; 111]%N; m_suite := Some {| s_name := None; s_desc := None; s_rank := None; s_cond := Some false; s_tags := [] |};
             m_rank := 0; m_items := [t_plain [116%N]] |}]
         [Dir [102; 111; 111]%N [{| m_file := [98; 97; 114]%N; m_suite := None; m_rank := 0; m_items := [t_plain [117%N]] |}] []].
Theorem C13_hidden_omitted_refuted : exists (root : dir) (suites : list lsuite) (path : list str) (t : ltest),
  names_ok (prepared false 1 root) /\ load false 1 root = Ok suites /\ In (path, t) (flat_all [] suites) /\
  declared_dir [] (prepared false 1 root) = [] /\ load true 1 root = Ok [].
Proof.
  exists f16_tree. eexists. eexists. eexists. split; [|split; [vm_compute; reflexivity|split; [vm_compute; left; reflexivity|split; vm_compute; reflexivity]]].
  vm_compute. repeat (constructor; simpl; try tauto; try (intros [H|H]; [discriminate|tauto])).
Qed.
Print Assumptions C13_hidden_omitted_refuted.

(* duplicates: whatever the loader (either variant) returns has, in EVERY suite at every depth, pairwise distinct test names,
   test descriptions, sub-suite names and sub-suite descriptions, and no hidden suite ... *)
Theorem C13_duplicates_rejected : forall (fixed : bool) (rank0 : nat) (root : dir) (suites : list lsuite),
  load fixed rank0 root = Ok suites ->
  Forall (all_nodes node_ok) suites /\ Forall (fun s => ls_hidden s = false) suites.
Proof. exact loaded_unique. Qed.
Print Assumptions C13_duplicates_rejected.

(* ... and duplicates are the only reason for Suite.add_test / Suite.add_suite to reject *)
Theorem C13_duplicates_rejected_iff : forall (tests : list ltest) (subs : list lsuite),
  ((exists r, add_tests [] tests = Ok r) <-> NoDup (map lt_name tests) /\ NoDup (map lt_desc tests)) /\
  ((exists r, add_suites [] subs = Ok r) <-> NoDup (map ls_name subs) /\ NoDup (map ls_desc subs)).
Proof. intros. split; [apply add_tests_iff|apply add_suites_iff]. Qed.
Print Assumptions C13_duplicates_rejected_iff.
