(* C09 — Saved reports load back unchanged (JSON and XML).
   Only statements here. Models: Model/Report.v (normal form), Model/Json.v, Model/Xml.v, Model/Time.v, Model/CodecFile.v;
   the serializers / unserializers themselves are gen/TablesCodec.v, regenerated from the Python source by every run.
   Proofs: Proofs/JsonP.v, Proofs/XmlP.v.

   Reading guide:
   * `tc : textcodec` is the text form of times and of integers (format_time_as_iso8601 / parse_iso8601_time, str / int);
     `codec_ok tc` says parsing a formatted value gives it back: the float pipeline is modelled as the identity on integer
     milliseconds and that assumption is a hypothesis of the theorems (validated on the real functions by the check).
   * `save_then_load tc b now r` = save r with backend b at time `now`, then load the file through reporting.loader with
     the default backends.  The loaded report carries saving_time = now (generation time), hence `with_saving`.
   * `unique_keys r` is the invariant of the Python dicts of the report (property keys per node, test names per suite). *)
From Coq Require Import List NArith ZArith Bool.
Import ListNotations.
From LCC Require Import Base.Util Model.Report Model.Time Model.Json Model.Xml gen.TablesCodec Model.CodecFile
  Proofs.JsonP Proofs.XmlP.

(* ------------------------------------------------------------------ JSON *)
(* json_safe r: no string of the report holds a high surrogate immediately followed by a low surrogate (two code points of a Python
   str that json.loads joins into one astral character: C09_json_refuted_surrogate_pair), and unique_keys r.
   Every other string -- empty, blank, CR, markup, control characters, U+FFFE/FFFF, lone surrogates -- is covered. *)
Theorem C09_json_roundtrip_partial : forall tc, codec_ok tc -> codec_json_ok tc -> forall now r, json_safe r ->
  save_then_load tc BJson now r = Ok (with_saving (Some now) r).
Proof. intros tc H1 H2 now r [Hs Hu]. apply json_file_rt; assumption. Qed.
Print Assumptions C09_json_roundtrip_partial.

(* the full statement at tree level (no text layer): _unserialize_report (serialize_report_into_json report), all strings *)
Theorem C09_json_tree_roundtrip : forall tc, codec_ok tc -> forall now r, unique_keys r ->
  json_load_report tc (json_save_report tc now r) = Ok (with_saving (Some now) r).
Proof. exact json_report_rt. Qed.
Print Assumptions C09_json_tree_roundtrip.

(* ------------------------------------------------------------------ XML: partial (xml_safe reports only) *)
(* xml_safe r (Model/CodecFile.v): every string written as element text has no CR and only XML 1.0 Chars; every string written
   as attribute value has only XML 1.0 Chars; check details and status are not "" ; report, suites, results and steps have a
   start time; unique_keys r.
   Missing with respect to the full statement: exactly the C09_xml_refuted_* classes below. *)
Theorem C09_xml_roundtrip_partial : forall tc, codec_ok tc -> codec_xml_ok tc -> forall now r, xml_safe r ->
  save_then_load tc BXml now r = Ok (with_saving (Some now) r).
Proof. intros tc H1 H2 now r [Hs Hu]. apply xml_file_rt; assumption. Qed.
Print Assumptions C09_xml_roundtrip_partial.

(* the same at tree level: _unserialize_report applied to what writing and parsing the tree of serialize_report_as_xml_tree gives *)
Theorem C09_xml_tree_roundtrip_partial : forall tc, codec_ok tc -> codec_xml_ok tc -> forall now r, xml_safe r ->
  bind (xml_norm (xml_save_report tc now r)) (xml_load_report tc) = Ok (with_saving (Some now) r).
Proof. intros tc H1 H2 now r [Hs Hu]. apply xml_tree_rt; assumption. Qed.
Print Assumptions C09_xml_tree_roundtrip_partial.

Theorem C09_backends_agree : forall tc, codec_ok tc -> codec_xml_ok tc -> codec_json_ok tc -> forall now r,
  xml_safe r -> json_safe r ->
  save_then_load tc BXml now r = save_then_load tc BJson now r.
Proof.
  intros tc H1 H2 H3 now r Hs Hj. rewrite C09_xml_roundtrip_partial by assumption.
  rewrite C09_json_roundtrip_partial by assumption. reflexivity.
Qed.
Print Assumptions C09_backends_agree.

(* the hypotheses on the codec are satisfiable *)
Theorem C09_codec_hypotheses_satisfiable : codec_ok una_codec /\ codec_xml_ok una_codec /\ codec_json_ok una_codec.
Proof.
  assert (P : forall z, una_parse (una_fmt z) = Some z).
  { intro z. unfold una_parse, una_fmt. rewrite repeat_length. destruct (Z.ltb_spec z 0).
    - cbn [N.eqb Pos.eqb]. rewrite Zabs2Nat.id_abs. f_equal. rewrite Z.abs_neq by auto with zarith. apply Z.opp_involutive.
    - cbn [N.eqb Pos.eqb]. rewrite Zabs2Nat.id_abs. f_equal. apply Z.abs_eq. assumption. }
  assert (Q : forall z, str_chars_ok (una_fmt z) = true).
  { intro z. unfold una_fmt, str_chars_ok. cbn [forallb]. apply andb_true_intro. split.
    - destruct (z <? 0)%Z; reflexivity.
    - induction (Z.abs_nat z); [reflexivity|]. cbn [repeat forallb]. rewrite IHn. reflexivity. }
  assert (R : forall z, pairfree (una_fmt z) = true).
  { intro z. unfold una_fmt.
    assert (F : forall n, pairfree (repeat 49%N n) = true).
    { induction n as [|n IHn]; [reflexivity|]. destruct n; [reflexivity|]. cbn [repeat] in *.
      change (negb (hi_sur 49 && lo_sur 49) && pairfree (49%N :: repeat 49%N n) = true). rewrite IHn. reflexivity. }
    destruct (Z.abs_nat z) as [|n]; [destruct (z <? 0)%Z; reflexivity|].
    specialize (F (Datatypes.S n)). cbn [repeat] in *.
    destruct (z <? 0)%Z.
    - change (negb (hi_sur 45 && lo_sur 49) && pairfree (49%N :: repeat 49%N n) = true). rewrite F. reflexivity.
    - change (negb (hi_sur 43 && lo_sur 49) && pairfree (49%N :: repeat 49%N n) = true). rewrite F. reflexivity. }
  repeat split; assumption.
Qed.
Print Assumptions C09_codec_hypotheses_satisfiable.

(* ------------------------------------------------------------------ XML: the full statement is false of the code *)
Definition sa : str := [97%N].                    (* "a" *)
(* one suite, one test, one step with one log of each kind; every varying field is a parameter *)
Definition wit (title info_v tag prop_v link_url : str) (link_name status sdet : option str)
               (msg fname url : str) (cdet : option str) (start : option Z) : report :=
  mkReport title [(sa, info_v)] (Some 1%Z) (Some 5%Z) None 1%Z None None
    [SuiteResult (mkMeta sa sa [tag] [(sa, prop_v)] [(link_url, link_name)]) (Some 1%Z) (Some 5%Z) None None
       [mkTest (mkMeta sa sa [] [] [])
          (mkResult start (Some 4%Z) status sdet
             [mkStep sa (Some 2%Z) (Some 3%Z)
                [LLog s_info msg 2%Z; LCheck sa true cdet 2%Z; LAttachment sa fname false 3%Z; LUrl sa url 3%Z]])]
       []].
Definition base := wit sa sa sa sa sa (Some sa) (Some s_passed) (Some sa) sa sa sa (Some sa) (Some 2%Z).
Definition X (r : report) := save_then_load una_codec BXml 0 r.
Definition J (r : report) := save_then_load una_codec BJson 0 r.
Definition expected (r : report) := with_saving (Some 0%Z) r.

(* the witnesses are inside the domain of the property ... *)
Example C09_base_is_safe : xml_safe base /\ json_safe base /\ X base = Ok (expected base) /\ J base = Ok (expected base).
Proof. repeat split; vm_compute; reflexivity. Qed.

Ltac refute_err := split; vm_compute; reflexivity.
Ltac refute_neq := eexists; split; [vm_compute; reflexivity | split; [vm_compute; reflexivity | vm_compute; discriminate]].

(* JSON, class "surrogate-pair": the two code points U+D83D U+DE00 are escaped separately by json.dumps (ensure_ascii) and joined
   into the single character U+1F600 by json.loads *)
Theorem C09_json_refuted_surrogate_pair :
  let r := wit sa sa sa sa sa (Some sa) (Some s_passed) (Some sa) [55357; 56832]%N sa sa (Some sa) (Some 2%Z) in
  exists r', unique_keys r /\ J r = Ok r' /\ r' <> expected r.
Proof. refute_neq. Qed.
Print Assumptions C09_json_refuted_surrogate_pair.
Theorem C09_json_roundtrip_refuted :
  ~ (forall tc, codec_ok tc -> codec_json_ok tc -> forall now r, unique_keys r ->
       save_then_load tc BJson now r = Ok (with_saving (Some now) r)).
Proof.
  intro H. destruct C09_codec_hypotheses_satisfiable as (H1 & H2 & H3).
  destruct C09_json_refuted_surrogate_pair as (r' & Hu & Hr & Hn).
  specialize (H una_codec H1 H3 0%Z _ Hu). unfold J in Hr. rewrite Hr in H. inversion H. contradiction.
Qed.
Print Assumptions C09_json_roundtrip_refuted.

(* class "empty": "" written as element text comes back as None. For the mandatory fields (log message, attachment file name,
   url, tag, property value, link url, title, info value) the unserializer restores "" (`text or ""`, fix F04), and "" in
   status_details / link name is written (`is not None`, fix F04): those are inside xml_safe (C09_empty_texts_are_safe).
   What remains: *)
(* an optional text silently becomes None (check.details: None and "" are the same empty element), and so does a status ""
   (written under a truthiness test; "" is not a status the framework produces) *)
Theorem C09_xml_refuted_empty_check_details :
  let r := wit sa sa sa sa sa (Some sa) (Some s_passed) (Some sa) sa sa sa (Some []) (Some 2%Z) in
  exists r', unique_keys r /\ X r = Ok r' /\ r' <> expected r.
Proof. refute_neq. Qed.
Print Assumptions C09_xml_refuted_empty_check_details.
Theorem C09_xml_refuted_empty_status :
  let r := wit sa sa sa sa sa (Some sa) (Some []) (Some sa) sa sa sa (Some sa) (Some 2%Z) in
  exists r', unique_keys r /\ X r = Ok r' /\ r' <> expected r.
Proof. refute_neq. Qed.
Print Assumptions C09_xml_refuted_empty_status.

(* class "cr": a carriage return in element text comes back as a line feed ("a\rb" -> "a\nb") *)
Theorem C09_xml_refuted_cr :
  let r := wit sa sa sa sa sa (Some sa) (Some s_passed) (Some sa) [97; 13; 98]%N sa sa (Some sa) (Some 2%Z) in
  exists r', unique_keys r /\ X r = Ok r' /\ r' <> expected r.
Proof. refute_neq. Qed.
Print Assumptions C09_xml_refuted_cr.

(* class "control": a character outside the XML Char production (here U+0001, in an attribute: the step log level is free text
   for the API) is written raw and the file cannot be parsed any more: every backend refuses it *)
Theorem C09_xml_refuted_control_char :
  let r := wit sa sa sa sa sa (Some sa) (Some s_passed) (Some [1%N]) sa sa sa (Some sa) (Some 2%Z) in
  unique_keys r /\ X r = Err ReportLoadingError.
Proof. refute_err. Qed.
Print Assumptions C09_xml_refuted_control_char.

(* class "surrogate": a lone surrogate (a valid Python str, e.g. from os.fsdecode) makes the save itself raise *)
Theorem C09_xml_refuted_lone_surrogate :
  let r := wit sa sa sa sa sa (Some sa) (Some s_passed) (Some sa) [55296%N] sa sa (Some sa) (Some 2%Z) in
  unique_keys r /\ X r = Err UnicodeEncodeError.
Proof. refute_err. Qed.
Print Assumptions C09_xml_refuted_lone_surrogate.

(* a result without start time (the JSON backend writes null) makes the XML serializer raise TypeError *)
Theorem C09_xml_refuted_missing_start_time :
  let r := wit sa sa sa sa sa (Some sa) (Some s_passed) (Some sa) sa sa sa (Some sa) None in
  unique_keys r /\ X r = Err TypeError /\ J r = Ok (expected r).
Proof. repeat split; vm_compute; reflexivity. Qed.
Print Assumptions C09_xml_refuted_missing_start_time.

(* hence the full statement does not hold for the XML backend *)
Theorem C09_xml_roundtrip_refuted :
  ~ (forall tc, codec_ok tc -> codec_xml_ok tc -> forall now r, unique_keys r ->
       save_then_load tc BXml now r = Ok (with_saving (Some now) r)).
Proof.
  intro H. destruct C09_codec_hypotheses_satisfiable as (H1 & H2 & _).
  destruct C09_xml_refuted_control_char as [Hu Hr].
  specialize (H una_codec H1 H2 0%Z _ Hu). unfold X in Hr. rewrite Hr in H. discriminate.
Qed.
Print Assumptions C09_xml_roundtrip_refuted.

(* ------------------------------------------------------------------ non-vacuity *)
(* every mandatory text field empty, status_details and link name "" : inside xml_safe, and both backends give the report back *)
Definition empties := wit [] [] [] [] [] (Some []) (Some s_passed) (Some []) [] [] [] (Some sa) (Some 2%Z).
Example C09_empty_texts_are_safe : xml_safe empties /\ X empties = Ok (expected empties) /\ J empties = Ok (expected empties).
Proof. repeat split; vm_compute; reflexivity. Qed.

(* a report with nesting, setups and teardowns, unfinished parts, markup / non-ASCII / astral characters, blanks and LF *)
Definition rich : report :=
  let res := mkResult (Some 2%Z) None None None
               [mkStep [60; 38; 62; 34; 39]%N (Some 2%Z) None [LLog s_error [32; 10; 233; 128512; 32]%N 3%Z]] in
  mkReport [84]%N [([105]%N, [32]%N)] (Some 1%Z) None None 4%Z (Some res) (Some res)
    [SuiteResult (mkMeta sa [] [[116]%N] [([107]%N, [118]%N); ([108]%N, [118]%N)] [([117]%N, None)]) (Some 1%Z) None (Some res) (Some res)
       [mkTest (mkMeta sa sa [] [] []) res; mkTest (mkMeta [98]%N sa [] [] []) (mkResult (Some 1%Z) (Some 2%Z) (Some s_failed) (Some sa) [])]
       [SuiteResult (mkMeta sa sa [] [] []) (Some 1%Z) (Some 2%Z) None None [] []]].
Example C09_rich_is_safe : xml_safe rich /\ json_safe rich /\ X rich = Ok (expected rich) /\ J rich = Ok (expected rich).
Proof. repeat split; vm_compute; reflexivity. Qed.
