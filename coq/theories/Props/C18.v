(* C18 — Replaying a report reproduces it.
   Only statements here; proofs are in Proofs/ReplayP.v (+ Proofs/WriterP.v); models: Model/Replay.v (replay_report_events,
   `replayable`, `tree`), Model/Writer.v (ReportWriter, `aggregate`), Model/StreamOk.v (the stream grammar), Model/Events.v. *)
From Coq Require Import List NArith ZArith Bool.
Import ListNotations.
From LCC Require Import Base.Util Model.Report Model.Events Model.Writer Model.Replay Model.StreamOk Proofs.ReplayP Proofs.StreamP Proofs.StreamFinP.

(* For every report a ReportWriter can have produced (Replay.replayable: finished or not — results, steps, suites and the report
   itself may lack an end time, several steps of one result may be open at once), whatever time.time() returns during the replay
   and whatever the replaying thread is: replay_report_events raises nothing and feeding its events to a fresh
   ReportWriter(Report()) yields a report whose normal form is the original's (title, info, nb_threads, saving_time are not
   carried by any event: `tree` resets them to the Report() defaults). *)
Theorem C18_identity : forall (now : Z) (th : tid) (r : report), replayable r = true ->
  exists es, replay_report_events now th r = (es, None) /\ aggregate es = Ok (tree r).
Proof. exact replay_identity. Qed.
Print Assumptions C18_identity.

(* The replayed stream satisfies the grammar of DESIGN Appendix A.1 in replay mode (StreamOk.replay_mode: an End may be missing
   and an open step may be abandoned, because the report may be the snapshot of a running session; empty steps may occur): session
   start first, session end last when present, session setup before / teardown after every suite event, suite brackets enclosing
   their setup, tests, sub-suites and teardown in this order, every ancestor open, no node started twice, nothing for a node
   after its End, every log inside the step open for its thread and location with that step's description. *)
Theorem C18_stream_ok : forall (now : Z) (th : tid) (r : report), replayable r = true ->
  stream_ok replay_mode (fst (replay_report_events now th r)) = true.
Proof. exact replay_stream_ok. Qed.
Print Assumptions C18_stream_ok.

(* ... and it is strictly sequential: additionally the events of each result (setup, teardown, test) form one contiguous block. *)
Theorem C18_sequential : forall (now : Z) (th : tid) (r : report), replayable r = true ->
  sequential_ok replay_mode (fst (replay_report_events now th r)) = true.
Proof. exact replay_sequential. Qed.
Print Assumptions C18_sequential.

(* When nothing in the report is in progress (Replay.finished: the report, every suite, every started result and every step
   has an end time) the replayed stream satisfies the grammar with EVERY bracket closed (StreamOk.finished_replay_mode: as a live
   run, except that empty steps may occur): at a result's End no step is open, at SuiteTeardownStart the setup and every test of
   the suite are over, at SuiteEnd everything below the suite is over, at SessionTeardownStart / SessionEnd every suite is over,
   and the stream ends with SessionEnd. *)
Theorem C18_stream_ok_finished : forall (now : Z) (th : tid) (r : report), replayable r = true -> finished r = true ->
  sequential_ok finished_replay_mode (fst (replay_report_events now th r)) = true.
Proof. exact replay_sequential_finished. Qed.
Print Assumptions C18_stream_ok_finished.

(* F10: the same statement is false of replay.py as it was before fixes/F10 (StepEndEvent fired unconditionally, its
   event_time=None replaced by time.time()): an in-progress test with an open step comes back with the step ended. *)
Definition f10_witness : report :=
  mkReport [82]%N [] (Some 1000%Z) None None 1 None None
    [SuiteResult (mkMeta [115]%N [115]%N [] [] []) (Some 1001%Z) None None None
       [mkTest (mkMeta [116]%N [116]%N [] [] [])
               (mkResult (Some 1002%Z) None None None [mkStep [100]%N (Some 1003%Z) None [LLog s_info [109]%N 1004%Z]])] []].

Theorem C18_identity_unfixed_refuted : exists now th r, replayable r = true /\
  res_eqb report_eqb (aggregate (fst (replay_report_events_unfixed now th r))) (Ok (tree r)) = false.
Proof. exists 9999%Z, 1%Z, f10_witness. split; vm_compute; reflexivity. Qed.
Print Assumptions C18_identity_unfixed_refuted.

(* non-vacuity: the witness above is replayable and the fixed replay does rebuild it *)
Example C18_witness_fixed :
  replayable f10_witness = true /\
  res_eqb report_eqb (aggregate (fst (replay_report_events 9999%Z 1%Z f10_witness))) (Ok (tree f10_witness)) = true /\
  sequential_ok replay_mode (fst (replay_report_events 9999%Z 1%Z f10_witness)) = true.
Proof. vm_compute. auto. Qed.

(* non-vacuity of C18_stream_ok_finished: a finished report with a failed test, a skipped test, a setup holding an empty step
   (which is why the live-run grammar, that forbids empty steps, rejects the replay) and a nested suite *)
Definition finished_witness : report :=
  let mt n := mkMeta [n]%N [n]%N [] [] [] in
  let stp := mkStep [100]%N (Some 1003%Z) (Some 1005%Z) [LLog s_error [109]%N 1004%Z] in
  mkReport [82]%N [] (Some 1000%Z) (Some 2000%Z) None 2 None (Some (mkResult (Some 1900%Z) (Some 1901%Z) (Some s_passed) None []))
    [SuiteResult (mt 115%N) (Some 1001%Z) (Some 1800%Z) (Some (mkResult (Some 1001%Z) (Some 1002%Z) (Some s_passed) None [mkStep [101]%N (Some 1001%Z) (Some 1002%Z) []])) None
       [mkTest (mt 116%N) (mkResult (Some 1002%Z) (Some 1006%Z) (Some s_failed) None [stp]);
        mkTest (mt 117%N) (mkResult (Some 1007%Z) (Some 1007%Z) (Some s_skipped) (Some [120]%N) [])]
       [SuiteResult (mt 118%N) (Some 1100%Z) (Some 1200%Z) None None [mkTest (mt 116%N) (mkResult (Some 1101%Z) (Some 1102%Z) (Some s_passed) None [])] []]].
Example C18_witness_finished :
  replayable finished_witness = true /\ finished finished_witness = true /\
  sequential_ok finished_replay_mode (fst (replay_report_events 9999%Z 1%Z finished_witness)) = true /\
  stream_ok live_mode (fst (replay_report_events 9999%Z 1%Z finished_witness)) = false.
Proof. vm_compute. auto. Qed.
