(* C18 — Replaying a report reproduces it.
   Only statements here; proofs are in Proofs/ReplayP.v (+ Proofs/WriterP.v); models: Model/Replay.v (replay_report_events,
   `replayable`, `tree`), Model/Writer.v (ReportWriter, `aggregate`), Model/StreamOk.v (the stream grammar), Model/Events.v. *)
From Coq Require Import List NArith ZArith Bool.
Import ListNotations.
From LCC Require Import Base.Util Model.Report Model.Events Model.Writer Model.Replay Model.StreamOk Proofs.ReplayP Proofs.StreamP.

(* For every report a ReportWriter can have produced (Replay.replayable: finished or not — results, steps, suites and the report
   itself may lack an end time, several steps of one result may be open at once), whatever time.time() returns during the replay
   and whatever the replaying thread is: replay_report_events raises nothing and feeding its events to a fresh
   ReportWriter(Report()) yields a report whose normal form is the original's (title, info, nb_threads, saving_time are not
   carried by any event: `tree` resets them to the Report() defaults). *)
Theorem C18_identity : forall (now : Z) (th : tid) (r : report), replayable r = true ->
  exists es, replay_report_events now th r = (es, None) /\ aggregate es = Ok (tree r).
Proof. exact replay_identity. Qed.
Print Assumptions C18_identity.

(* The replayed stream satisfies the grammar of DESIGN Appendix A.1 in replay mode (StreamOk.replay_mode: an End may be missing
   and an open step may be abandoned, because the report may be the snapshot of a running session; empty steps may occur): session
   start first, session end last when present, session setup before / teardown after every suite event, suite brackets enclosing
   their setup, tests, sub-suites and teardown in this order, every ancestor open, no node started twice, nothing for a node
   after its End, every log inside the step open for its thread and location with that step's description. *)
Theorem C18_stream_ok : forall (now : Z) (th : tid) (r : report), replayable r = true ->
  stream_ok replay_mode (fst (replay_report_events now th r)) = true.
Proof. exact replay_stream_ok. Qed.
Print Assumptions C18_stream_ok.

(* ... and it is strictly sequential: additionally the events of each result (setup, teardown, test) form one contiguous block. *)
Theorem C18_sequential : forall (now : Z) (th : tid) (r : report), replayable r = true ->
  sequential_ok replay_mode (fst (replay_report_events now th r)) = true.
Proof. exact replay_sequential. Qed.
Print Assumptions C18_sequential.

(* F10: the same statement is false of replay.py as it was before fixes/F10 (StepEndEvent fired unconditionally, its
   event_time=None replaced by time.time()): an in-progress test with an open step comes back with the step ended. *)
Definition f10_witness : report :=
  mkReport [82]%N [] (Some 1000%Z) None None 1 None None
    [SuiteResult (mkMeta [115]%N [115]%N [] [] []) (Some 1001%Z) None None None
       [mkTest (mkMeta [116]%N [116]%N [] [] [])
               (mkResult (Some 1002%Z) None None None [mkStep [100]%N (Some 1003%Z) None [LLog s_info [109]%N 1004%Z]])] []].

Theorem C18_identity_unfixed_refuted : exists now th r, replayable r = true /\
  res_eqb report_eqb (aggregate (fst (replay_report_events_unfixed now th r))) (Ok (tree r)) = false.
Proof. exists 9999%Z, 1%Z, f10_witness. split; vm_compute; reflexivity. Qed.
Print Assumptions C18_identity_unfixed_refuted.

(* non-vacuity: the witness above is replayable and the fixed replay does rebuild it *)
Example C18_witness_fixed :
  replayable f10_witness = true /\
  res_eqb report_eqb (aggregate (fst (replay_report_events 9999%Z 1%Z f10_witness))) (Ok (tree f10_witness)) = true /\
  sequential_ok replay_mode (fst (replay_report_events 9999%Z 1%Z f10_witness)) = true.
Proof. vm_compute. auto. Qed.
