(* C03 — Fixtures and hooks: set up before use, torn down exactly once after last use.
   Statements only. The ordering part is a property of the dispatch loop (Model/Sched.v) over the dependency edges that
   runner.build_tasks creates (Model/Graph.v, compared with the implementation's graph on every run): for every graph,
   every number of threads and every interleaving. Proofs: Proofs/SchedP.v. *)
From Coq Require Import List Arith Bool Relations.
Import ListNotations.
From LCC Require Import Base.Util Model.Proj Model.Sched Model.Graph Model.Fixture Model.TaskSem Proofs.SchedP Proofs.ProtocolP
     Proofs.GraphP Proofs.ShapeP Proofs.TeardownOrderP Proofs.FixtureP Proofs.NeededP.

(* Setups come first and teardowns last: when a worker takes a task, every task it depends on — on success (a test on its
   suite's setup task, a suite setup on the session setup ...) or on mere completion (a suite teardown on the suite's setup
   and on every test of the suite, the session teardown on the end of every top-level suite) — directly or through a chain of
   dependencies, has been taken, has finished and has been acknowledged, in that order, strictly before.
   Hence a fixture is evaluated before any consumer starts, and torn down after the last consumer has finished, whether
   the consumers passed, failed or were skipped — also after a keyboard interrupt (no hypothesis on the moves). *)
Theorem C03_setup_before_consumers_teardown_after : forall g n sof t e, dep_path g t e ->
  forall ms1 md ms2 s, 1 <= n ->
  run g n sof (init g n) (ms1 ++ MTake t md :: ms2) = Some s ->
  occurs (is_take e) ms1 /\ occurs (is_finish e) ms1 /\ occurs (is_main e) ms1.
Proof. exact take_after_transitive_dependencies. Qed.
Print Assumptions C03_setup_before_consumers_teardown_after.

(* each setup / teardown task is executed exactly once in a complete run: a fixture instance is evaluated once and torn
   down once *)
Theorem C03_each_phase_exactly_once : forall g n sof ms s t,
  1 <= n -> run g n sof (init g n) ms = Some s -> finished g s = true -> t < length g ->
  count (is_take t) ms = 1 /\ count (is_finish t) ms = 1 /\ count (is_main t) ms = 1 /\ dead s = [].
Proof. exact exactly_once_when_finished. Qed.
Print Assumptions C03_each_phase_exactly_once.

(* if a setup task does not end with Success its consumers (which depend on it on success) are not executed *)
Theorem C03_setup_failure_skips_consumers : forall g sof s t deps1 d deps2 r,
  t_succ (get_task g t) = deps1 ++ d :: deps2 ->
  (forall x, In x deps1 -> result_of s x = Some ResSuccess) -> result_of s d = Some r -> r <> ResSuccess ->
  decide g sof s t JHandle = Skip (skip_reason_of r).
Proof. exact skipped_if_a_dependency_did_not_succeed. Qed.
Print Assumptions C03_setup_failure_skips_consumers.

(* The edges, for EVERY project (every suite tree, fixture schedule, force_disabled; both passes of build_tasks): each
   nested suite s' has its block of tasks [T] in the graph, and if the suite has a setup task (needs_init: it has something
   to set up or tear down and a test to run) then that task is an on-success dependency of every test of the suite, and
   the suite's teardown task depends — on completion only, whatever the outcome — on the setup task and on every test,
   and on nothing on success.  With the two theorems above: for all projects, thread counts and interleavings the
   setup has finished before any test of the suite starts, no test runs if it failed, and the teardown starts after the
   setup and every test of the suite have finished, passed or not. *)
Theorem C03_setup_teardown_edges_every_project : forall si force suites g s',
  build_tasks si force suites = Some g -> In s' (all_subsuites suites) ->
  exists pre post ss pb prefix inh,
    let T := suite_tasks si force ss pb prefix inh (length pre) s' in
    let b := length pre in let m := length (su_tests s') in
    build_tasks_structural si force suites = pre ++ T ++ post /\
    (needs_init si force inh (prefix ++ [su_name s']) s' = true ->
       t_kind (get_task g (b + 1)) = KSuiteInit /\ t_kind (get_task g (b + 2 + m)) = KSuiteTeardown /\
       In (b + 1) (t_compl (get_task g (b + 2 + m))) /\ t_succ (get_task g (b + 2 + m)) = [] /\
       forall k, k < m ->
         t_kind (get_task g (b + 2 + k)) = KTest /\
         In (b + 1) (t_succ (get_task g (b + 2 + k))) /\
         In (b + 2 + k) (t_compl (get_task g (b + 2 + m)))).
Proof. exact suite_phases. Qed.
Print Assumptions C03_setup_teardown_edges_every_project.

(* Session-scoped fixtures, for EVERY project with a session setup task (and at least one suite): the session setup task is a
   (transitive) dependency of every other task of the run and the session teardown task (transitively) depends on every other
   task — so, by C03_setup_before_consumers_teardown_after, the session fixtures are set up before anything else starts and
   torn down after everything else has finished, for every thread count and interleaving. *)
Theorem C03_session_brackets_every_project : forall si force suites g,
  si_session si = true -> suites <> [] -> build_tasks si force suites = Some g ->
  t_kind (get_task g 0) = KSessionSetup /\ t_kind (get_task g (length g - 1)) = KSessionTeardown /\ 2 <= length g /\
  (forall i, 0 < i < length g -> dep_path g i 0) /\
  (forall i, i < length g - 1 -> dep_path g (length g - 1) i).
Proof. exact session_brackets. Qed.
Print Assumptions C03_session_brackets_every_project.

(* the edges themselves, on a concrete project: the teardown of a suite waits on completion of the suite's setup and tests,
   the session teardown on the end of the top suite, tests on the suite setup (non-vacuity of the hypotheses above;
   for arbitrary projects the graph is compared with runner.build_tasks on every run) *)
Example C03_witness_graph :
  let hk := mkHooks (Some ([], [])) (Some []) None None in
  let s := Suite 5 false hk [] [mkTest 7 false [] [] [] []; mkTest 8 false [] [] [] []] [] in
  build_tasks (mkSinfo true (fun _ _ => false)) false [s] =
  Some [mkTask KSessionSetup [] [] []; mkTask KSuiteBegin [5] [0] []; mkTask KSuiteInit [5] [1] [];
        mkTask KTest [5; 7] [2] []; mkTask KTest [5; 8] [2] []; mkTask KSuiteTeardown [5] [] [2; 3; 4];
        mkTask KSuiteEnd [5] [1; 3; 4; 5] []; mkTask KSessionTeardown [] [] [6]].
Proof. vm_compute. reflexivity. Qed.

(* ---- inside one phase (RunContext.run_setup_funcs / run_teardown_funcs of runner.py; Model/TaskSem.v, whose per-task atoms —
   among them AtBegin, "this piece of user code is entered by the worker" — are compared with the real runner's trace for every
   task of every co-simulated run). [rbegins r] is the sequence of pieces of user code entered so far. ---- *)

(* The teardown loop enters the teardown code of what the setup kept in REVERSE order of [kept], each function exactly
   once, whatever each teardown does (logs, failed checks, Exceptions, threads); it stops early only when a BaseException that
   is not an Exception escaped (the worker thread dies), and then what it did enter is still a prefix of the reverse order. *)
Theorem C03_teardown_loop_reverse_order : forall env suite kept r,
  exists done rest, rev (teardowns_of kept) = done ++ rest /\
    rbegins (run_teardown_funcs env suite kept r) = rbegins r ++ done /\
    (rs_died (run_teardown_funcs env suite kept r) = false -> rest = []).
Proof. exact teardown_funcs_reverse_order. Qed.
Print Assumptions C03_teardown_loop_reverse_order.

(* an Exception raised by a teardown does not stop the loop *)
Theorem C03_teardown_loop_survives_exceptions : forall env suite l r,
  rs_died r = false ->
  (forall f r0, In (Some f) l -> match snd (call_tfun env f r0) with Some k => is_exception k = true | None => True end) ->
  rs_died (run_teardown_list env suite l r) = false.
Proof. exact teardown_list_survives_exceptions. Qed.
Print Assumptions C03_teardown_loop_survives_exceptions.

(* Setups then teardowns, for every list of (setup, teardown) pairs — fixtures of any scope, inject_fixtures, setup_suite /
   teardown_suite, setup_test / teardown_test — and whatever the user code does: the teardowns later run are exactly those of
   the maximal prefix [done] of the pairs whose setup completed without recording a failure, each once, in reverse order of
   setup; the pair whose setup failed and the pairs after it are not torn down, what was set up before the failure still is.
   Nothing is assumed of [r'], the state of the location when the teardowns start (consumers passed, failed, were skipped). *)
Theorem C03_teardowns_in_reverse_order_of_setups : forall env suite suite' pairs r r1 kept r',
  run_setup_funcs env suite pairs r [] = (r1, kept) -> sound_state r ->
  rs_died (run_teardown_funcs env suite' kept r') = false ->
  exists done rest, pairs = done ++ rest /\ kept = map snd done /\
    rbegins (run_teardown_funcs env suite' kept r') = rbegins r' ++ rev (teardowns_of (map snd done)) /\
    (rest = [] -> sound_state r1) /\
    (rest <> [] -> rs_failed r1 = true \/ rs_died r1 = true).
Proof. exact setups_then_teardowns. Qed.
Print Assumptions C03_teardowns_in_reverse_order_of_setups.

(* which setups were entered: those of [done] and of the first pair that failed, in order, nothing after it *)
Theorem C03_setups_in_order_stop_at_first_failure : forall env suite pairs r kept0 r1 kept,
  run_setup_funcs env suite pairs r kept0 = (r1, kept) -> sound_state r ->
  exists done rest, pairs = done ++ rest /\ kept = kept0 ++ map snd done /\
    (rest = [] -> sound_state r1 /\ rbegins r1 = rbegins r ++ setups_of done) /\
    (forall q rest', rest = q :: rest' ->
        (rs_failed r1 = true \/ rs_died r1 = true) /\ rbegins r1 = rbegins r ++ setups_of done ++ sf_owners (fst q)).
Proof. exact setup_funcs_prefix. Qed.
Print Assumptions C03_setups_in_order_stop_at_first_failure.

(* sensitivity / non-vacuity: two fixtures are torn down 2 then 1, which is not the setup order; a failing second setup
   leaves the first fixture torn down and the second and third not *)
Theorem C03_teardown_in_setup_order_refuted :
  let '(r1, kept) := run_setup_funcs (fun _ => IGlobal) None two_fixtures r_init [] in
  rbegins r1 = [OFxSetup 1; OFxSetup 2] /\
  rbegins (run_teardown_funcs (fun _ => IGlobal) None kept r_init) = [OFxTeardown 2; OFxTeardown 1] /\
  rbegins (run_teardown_funcs (fun _ => IGlobal) None kept r_init) <> teardowns_of kept.
Proof. exact forward_order_refuted. Qed.
Print Assumptions C03_teardown_in_setup_order_refuted.
Example C03_failing_setup_witness :
  let '(r1, kept) := run_setup_funcs (fun _ => IGlobal) None three_fixtures_second_fails r_init [] in
  rbegins r1 = [OFxSetup 1; OFxSetup 2] /\ rs_failed r1 = true /\
  rbegins (run_teardown_funcs (fun _ => IGlobal) None kept r_init) = [OFxTeardown 1].
Proof. exact failing_setup_witness. Qed.

(* A whole test task (TestTask.run, Model/TaskSem.v test_run), whatever its hooks, fixtures and body do, unless a BaseException
   killed the worker: the user code entered is setup_test, then the test-scoped fixtures in schedule order — stopping after the
   first setup that records a failure —, then the body, only if every setup completed without a failure, then the teardowns of
   exactly what was set up, in reverse order of setup (the fixture set up last first, teardown_test last); and a test one of
   whose setups recorded a failure never ends with Success (a recorded failure is not forgotten by the teardowns). *)
Theorem C03_test_task_user_code_order : forall env p suite t hk fxs,
  to_res (test_run env p suite t hk fxs) <> TkDied ->
  exists done rest, test_pairs p hk fxs = done ++ rest /\
    begins (to_main (test_run env p suite t hk fxs)) =
      setups_of done ++ (match rest with q :: _ => sf_owners (fst q) | [] => [OBody p] end) ++
      rev (teardowns_of (map snd done)) /\
    (to_res (test_run env p suite t hk fxs) = TkSuccess -> rest = []).
Proof. exact test_run_user_code_order. Qed.
Print Assumptions C03_test_task_user_code_order.
Example C03_test_task_order_witness :
  let hk := mkHooks None None (Some []) (Some []) in
  let fxs := [mkFixture 1 ScTest [] false false true [] []; mkFixture 2 ScTest [] false false true [] []] in
  begins (to_main (test_run (fun _ => IGlobal) [5; 7] [5] (mkTest 7 false [] [] [] []) hk fxs)) =
  [OSetupTest [5; 7]; OFxSetup 1; OFxSetup 2; OBody [5; 7]; OFxTeardown 2; OFxTeardown 1; OTeardownTest [5; 7]].
Proof. exact test_run_order_witness. Qed.

(* The suite / session phases are TWO tasks: the setup task keeps the teardowns of what it set up (to_kept), the matching
   teardown task — which starts after every consumer has finished, whatever their outcome: C03_setup_before_consumers_teardown_after —
   receives them. For every list of pairs (fixtures of the scope in schedule order, inject_fixtures, setup_suite /
   teardown_suite) and whatever the user code does, unless a worker died: the setup task enters the setups in order and stops at
   the first that records a failure; it ends with Success exactly when none did; the teardown task enters the teardowns of
   exactly the completed setups, each once, in reverse order. *)
Theorem C03_setup_task_then_teardown_task : forall env env' l l' st en isst d st' en' isst' d' pairs,
  to_res (setup_phase env l st en isst d pairs) <> TkDied ->
  to_res (teardown_phase env' l' st' en' isst' d' (to_kept (setup_phase env l st en isst d pairs))) <> TkDied ->
  exists done rest, pairs = done ++ rest /\
    begins (to_main (setup_phase env l st en isst d pairs)) =
      setups_of done ++ (match rest with q :: _ => sf_owners (fst q) | [] => [] end) /\
    begins (to_main (teardown_phase env' l' st' en' isst' d' (to_kept (setup_phase env l st en isst d pairs)))) =
      rev (teardowns_of (map snd done)) /\
    (rest = [] <-> to_res (setup_phase env l st en isst d pairs) = TkSuccess).
Proof. exact setup_phase_then_teardown_phase. Qed.
Print Assumptions C03_setup_task_then_teardown_task.

(* ---- which fixtures are evaluated (fixture.py: get_fixtures_used_in_suite, get_scheduled_fixtures_for_scope; Model/Fixture.v,
   compared with the real registry on every run of C14's and the run model's checks). ---- *)

(* The suite-scoped fixtures scheduled for a suite, for every validated registry: exactly the suite-scoped fixtures that the
   suite itself (injected fixtures, setup_suite arguments) or one of its tests that is going to run needs, directly or through
   fixture parameters — a fixture needed only by disabled tests is not in the schedule —, each once, every fixture after the
   suite-scoped fixtures it depends on. *)
Theorem C03_suite_fixtures_exactly_the_needed_ones : forall reg inh s force, registry_ok reg ->
  (forall f, needed_directly inh s force f -> reg_mem reg f = true) ->
  exists fxs, get_fixtures_scheduled_for_suite reg inh s force = Ok fxs /\
    NoDup (map fx_name fxs) /\
    (forall y, In y (map fx_name fxs) <->
       (exists f, needed_directly inh s force f /\ clos_refl_trans name (Edge (reg_find reg)) f y) /\ scope_of reg y ScSuite) /\
    (forall d1 fx t1, fxs = d1 ++ fx :: t1 ->
       forall y, In y (fparams fx) -> scope_of reg y ScSuite -> In y (map fx_name d1)).
Proof. exact suite_schedule_is_what_is_needed. Qed.
Print Assumptions C03_suite_fixtures_exactly_the_needed_ones.

(* a suite none of whose tests is going to run has no suite fixture evaluated *)
Theorem C03_nothing_to_run_nothing_evaluated : forall reg inh s,
  has_enabled_tests inh s = false -> get_fixtures_scheduled_for_suite reg inh s false = Ok [].
Proof. exact nothing_to_run_nothing_scheduled. Qed.
Print Assumptions C03_nothing_to_run_nothing_evaluated.

(* and the suite setup task, when it succeeds, has entered the setup of exactly that schedule, in schedule order, each once,
   then setup_suite *)
Theorem C03_suite_setup_task_evaluates_the_schedule : forall reg force inh sp s fxs env l st en isst d,
  get_fixtures_scheduled_for_suite reg inh s force = Ok fxs ->
  to_res (setup_phase env l st en isst d (init_pairs reg force inh sp s)) = TkSuccess ->
  begins (to_main (setup_phase env l st en isst d (init_pairs reg force inh sp s))) =
    map (fun fx => OFxSetup (fx_name fx)) fxs ++
    match h_setup_suite (su_hooks s) with Some _ => [OSetupSuite sp] | None => [] end.
Proof. exact suite_setup_task_enters_the_schedule. Qed.
Print Assumptions C03_suite_setup_task_evaluates_the_schedule.

(* test scope: the test-scoped fixtures scheduled for a test are exactly those its arguments need, directly or through fixture
   parameters, each once, dependencies first ... *)
Theorem C03_test_fixtures_exactly_the_needed_ones : forall reg t, registry_ok reg ->
  (forall f, In f (test_fixtures t) -> reg_mem reg f = true) ->
  exists fxs, get_fixtures_scheduled_for_test reg t = Ok fxs /\
    NoDup (map fx_name fxs) /\
    (forall y, In y (map fx_name fxs) <->
       (exists f, In f (test_fixtures t) /\ clos_refl_trans name (Edge (reg_find reg)) f y) /\ scope_of reg y ScTest) /\
    (forall d1 fx t1, fxs = d1 ++ fx :: t1 ->
       forall y, In y (fparams fx) -> scope_of reg y ScTest -> In y (map fx_name d1)).
Proof. exact test_schedule_is_what_the_test_needs. Qed.
Print Assumptions C03_test_fixtures_exactly_the_needed_ones.

(* ... and a test task that ends with Success has entered exactly: setup_test, the setups of that schedule in order, the body,
   the teardowns of its generator fixtures in reverse order, teardown_test — each once *)
Theorem C03_successful_test_task : forall env p suite t hk fxs,
  to_res (test_run env p suite t hk fxs) = TkSuccess ->
  begins (to_main (test_run env p suite t hk fxs)) =
    (match h_setup_test hk with Some _ => [OSetupTest p] | None => [] end) ++
    map (fun fx => OFxSetup (fx_name fx)) fxs ++ [OBody p] ++
    rev (map (fun fx => OFxTeardown (fx_name fx)) (filter fx_generator fxs)) ++
    (match h_teardown_test hk with Some _ => [OTeardownTest p] | None => [] end).
Proof. exact successful_test_task. Qed.
Print Assumptions C03_successful_test_task.

(* session scope: the session-scoped fixtures scheduled for a run are exactly those some suite of the run needs (recursively over
   nested suites, disabled tests not counting), each once, dependencies first; what a run needs is used by some suite or test of
   the forest; and a successful session setup task has entered exactly the setups of that schedule, in schedule order *)
Theorem C03_session_fixtures_exactly_the_needed_ones : forall reg suites force, registry_ok reg ->
  (forall f, needed_in_run suites force f -> reg_mem reg f = true) ->
  exists fxs, get_fixtures_scheduled_for_session reg suites force = Ok fxs /\
    NoDup (map fx_name fxs) /\
    (forall y, In y (map fx_name fxs) <->
       (exists f, needed_in_run suites force f /\ clos_refl_trans name (Edge (reg_find reg)) f y) /\ scope_of reg y ScSession) /\
    (forall d1 fx t1, fxs = d1 ++ fx :: t1 ->
       forall y, In y (fparams fx) -> scope_of reg y ScSession -> In y (map fx_name d1)).
Proof. exact session_schedule_is_what_is_needed. Qed.
Print Assumptions C03_session_fixtures_exactly_the_needed_ones.
Theorem C03_needed_in_run_is_used_somewhere : forall suites force f, needed_in_run suites force f ->
  exists top s', In top suites /\ In s' (flatten_suite top) /\
    (In f (suite_fixtures s') \/ exists t, In t (su_tests s') /\ In f (test_fixtures t)).
Proof. exact needed_in_run_is_used_somewhere. Qed.
Print Assumptions C03_needed_in_run_is_used_somewhere.
Theorem C03_session_setup_task_evaluates_the_schedule : forall reg force suites fxs env l st en isst d,
  get_fixtures_scheduled_for_session reg suites force = Ok fxs ->
  to_res (setup_phase env l st en isst d (session_pairs reg force suites)) = TkSuccess ->
  begins (to_main (setup_phase env l st en isst d (session_pairs reg force suites))) =
    map (fun fx => OFxSetup (fx_name fx)) fxs.
Proof. exact session_setup_task_enters_the_schedule. Qed.
Print Assumptions C03_session_setup_task_evaluates_the_schedule.
