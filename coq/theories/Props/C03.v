(* C03 — placeholder until the theorems are stated (replaced below in this session). *)
From Coq Require Import List Arith Bool.
From LCC Require Import Model.Sched Proofs.SchedP.
Theorem C03_take_after_dependencies : forall g n sof ms1 t md ms2 s d,
  1 <= n -> no_interrupt ms1 ->
  run g n sof (init g n) (ms1 ++ MTake t md :: ms2) = Some s ->
  In d (all_deps (get_task g t)) ->
  count (is_main d) ms1 = 1 /\ count (is_finish d) ms1 = 1.
Proof. exact take_after_dependencies. Qed.
Print Assumptions C03_take_after_dependencies.
