(* C11 — A failing reporting backend is never silent and never hangs the run.
   Statements only. Handler thread: Model/Handler.v (events.py _handler_loop / handle_events, runner._run_suites re-raise);
   dispatcher: Model/Sched.v (the pending failure is read by is_task_to_be_skipped). Proofs: HandlerP.v, SchedP.v. *)
From Coq Require Import List Arith Bool.
Import ListNotations.
From LCC Require Import Base.Util Model.Proj Model.Sched Model.Fixture Model.TaskSem Model.Handler
     Proofs.SchedP Proofs.HandlerP.

(* never hangs (1): for every event history and every listener behaviour the handler thread leaves its loop once the
   sentinel has been put, so handle_events' join returns *)
Theorem C11_handler_thread_stops : forall ls evs, h_stopped (run_handler ls (map Ev evs ++ [Sentinel])) = true.
Proof. exact handler_stops. Qed.
Print Assumptions C11_handler_thread_stops.

(* never hangs (2): the dispatch loop does not wait for the handler: with a pending failure raised at any point, by any
   interleaving, at most 3|tasks|+2 task-level moves remain possible and none of the reachable states is stuck *)
Theorem C11_run_terminates : forall g n sof ms s,
  1 <= n -> run g n sof (init g n) ms = Some s -> count_task_moves ms <= 3 * length g + 2.
Proof.
  intros g n sof ms s Hn H.
  pose proof (bounded_task_moves g n sof ms (init g n) s Hn (init_Inv g n Hn) H).
  pose proof (init_weight g n). Lia.lia.
Qed.
Print Assumptions C11_run_terminates.

Theorem C11_no_deadlock : forall g rk n sof s,
  wf g rk -> 1 <= n -> reachable g n sof s -> dead s = [] -> pc s <> PDone ->
  exists m s', task_move m = true /\ step g n sof s m = Some s'.
Proof. intros g rk n sof s W Hn R. apply (progress g rk n sof s W Hn). apply (reachable_Inv g n sof s Hn R). Qed.
Print Assumptions C11_no_deadlock.

(* never silent (1): for every event index k at which a backend raises, the failure that is pending at the end is the first
   one, nothing was delivered after it, and the error raised to the caller carries its text whatever the exception class *)
Theorem C11_error_raised_with_text : forall ls evs,
  (exists e, In e evs /\ deliver ls e <> None) ->
  exists pre e post c t, evs = pre ++ e :: post /\ (forall x, In x pre -> deliver ls x = None) /\
    deliver ls e = Some (c, t) /\
    let h := run_handler ls (map Ev evs ++ [Sentinel]) in
    h_pending h = Some (mkFailure c t e) /\ h_delivered h = pre /\
    raised_text (reraise (mkFailure c t e)) = t.
Proof. exact failure_is_reported. Qed.
Print Assumptions C11_error_raised_with_text.

(* never silent (2): once the failure is visible to the dispatcher no task taken afterwards is run — whatever the text of
   the exception, the empty text included (F17) — and it stays visible *)
Theorem C11_no_new_body_after_visible : forall g sof s t e,
  c_tasks_aborted (cx s) = false -> c_pending (cx s) = Some e ->
  dep_skip s (t_succ (get_task g t)) = None ->
  decide g sof s t JHandle = Skip (Some (RHandler e)).
Proof. exact handler_failure_skips_whatever_the_text. Qed.
Print Assumptions C11_no_new_body_after_visible.

Theorem C11_failure_stays_visible : forall g n sof ms s s' e,
  run g n sof s ms = Some s' -> c_pending (cx s) = Some e -> c_pending (cx s') = Some e.
Proof. intros g n sof ms s s' e H P. destruct (run_ctx_le g n sof ms s s' H) as [_ [A _]]. auto. Qed.
Print Assumptions C11_failure_stays_visible.

(* teardowns of completed setups still run: a suite / session teardown task does the same work whether it is run or
   skipped *)
Theorem C11_teardowns_run_when_skipped : forall pr reg force t r setup_md,
  t_kind t = KSuiteTeardown \/ t_kind t = KSessionTeardown ->
  task_sem pr reg force t (Skip r) setup_md = task_sem pr reg force t Run setup_md.
Proof. intros pr reg force t r sm [H|H]; unfold task_sem; rewrite H; reflexivity. Qed.
Print Assumptions C11_teardowns_run_when_skipped.

(* without a failing backend everything is delivered in order and nothing is pending *)
Theorem C11_no_failure_all_delivered : forall ls evs, (forall e, In e evs -> deliver ls e = None) ->
  let h := run_handler ls (map Ev evs ++ [Sentinel]) in h_pending h = None /\ h_delivered h = evs.
Proof. exact no_failure_all_delivered. Qed.
Print Assumptions C11_no_failure_all_delivered.

(* non-vacuity: the second listener raises an exception with a 5-argument constructor at the third event *)
Example C11_witness :
  let ls := [fun _ => None; fun e => if Nat.eqb e 12 then Some (OtherSignature, 77) else None] in
  let h := run_handler ls (map Ev [10; 11; 12; 13] ++ [Sentinel]) in
  h_delivered h = [10; 11] /\ option_map reraise (h_pending h) = Some (RaisedLccException 77).
Proof. split; vm_compute; reflexivity. Qed.
