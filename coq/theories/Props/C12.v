(* C12 — test selection matches the filter, including report-based selection.
   Only statements here. Models: Model/Glob.v (fnmatch), Model/Filter.v (filter.py with fix F07, testtree.py pruning,
   cli/utils.py:load_suites_from_project). Specification (Prop level, independent of the evaluator) and proofs:
   Proofs/GlobP.v (gmatch), Proofs/FilterP.v (pat_sat, group_sat, *_value, base_spec, test_spec, selects, prune_rel,
   report_criteria).
   Pattern type of the theorems: Glob.pattern = literals, ?, *, [seq], [!seq] with characters and ranges; pattern TEXTS are read by
   Glob.parse_glob, which covers every text except one exotic bracket form (a non-negated set starting with a reversed range
   followed by `!`, e.g. [b-a!x]) that CPython re-reads as a negated set. *)
From Coq Require Import List NArith ZArith Bool.
Import ListNotations.
From LCC Require Import Base.Util Model.Report Model.Glob Model.Filter Proofs.GlobP Proofs.FilterP.

(* ------------------------------------------------------------------ wildcard matching *)
(* the executable matcher agrees with the usual inductive definition of wildcard matching, for every pattern and every string *)
Theorem C12_glob_spec : forall (p : pattern) (s : str), glob_match p s = true <-> gmatch p s.
Proof. exact glob_spec_proof. Qed.
Print Assumptions C12_glob_spec.

(* reading a pattern text never runs out of fuel: any fuel >= length gives the same pattern *)
Theorem C12_parse_glob_total : forall (n : nat) (s : str), length s <= n -> parse_glob_fuel n s = parse_glob s.
Proof. exact parse_glob_fuel_enough. Qed.
Print Assumptions C12_parse_glob_total.

(* a pattern text is read exactly as the grammar GlobP.parses says (`*`, `?`, `[` optional `!` members `]` where the first member
   may be `]` and x-y is a range, an unclosed `[` is an ordinary character, anything else is itself) *)
Theorem C12_parse_glob_spec : forall (s : str) (p : pattern), parses s p <-> p = parse_glob s.
Proof. exact parse_glob_spec_proof. Qed.
Print Assumptions C12_parse_glob_spec.

(* ------------------------------------------------------------------ selection *)
(* for every filter and every forest: the tests of the filtered forest, with their hierarchies (hence paths), in order, are
   exactly the tests of the project that satisfy the declarative specification test_spec, in the project's order *)
Theorem C12_selected_iff : forall (f : test_filter) (suites : list psuite),
  selects (test_spec f) (all_tests_h [] suites) (all_tests_h [] (filter_suites (test_call f) [] suites)).
Proof. exact selected_iff_proof. Qed.
Print Assumptions C12_selected_iff.

(* the evaluator and the specification agree on every single node hierarchy *)
Theorem C12_call_iff_spec : forall (f : test_filter) (h : phier), test_call f h = true <-> test_spec f h.
Proof. exact test_call_spec. Qed.
Print Assumptions C12_call_iff_spec.

(* the filtered forest is the project forest with the same hierarchy and order, in which a suite is dropped exactly when no
   test below it satisfies the filter, and a kept suite holds exactly its satisfying tests (relation prune_rel) *)
Theorem C12_prune : forall (f : test_filter) (suites : list psuite),
  prune_rel (test_spec f) [] suites (filter_suites (test_call f) [] suites).
Proof. exact prune_spec_proof. Qed.
Print Assumptions C12_prune.

(* the same for any callable used as a filter (FromTestsFilter, lambdas) *)
Theorem C12_prune_any_filter : forall (keep : phier -> bool) (anc : phier) (suites : list psuite),
  prune_rel (fun h => keep h = true) anc suites (filter_suites keep anc suites) /\
  all_tests_h anc (filter_suites keep anc suites) = filter keep (all_tests_h anc suites).
Proof. intros. split; [apply prune_proof | apply all_tests_filter_suites]. Qed.
Print Assumptions C12_prune_any_filter.

(* the command line without report-based option: make_test_filter + load_suites_from_project *)
Theorem C12_select_cli : forall re_search (a : cli_args) (rep : report) (suites l : list psuite),
  uses_report a = false ->
  lcc_select re_search a rep suites = Ok l ->
  let f := mkTestFilter (args_base a) (a_enabled a) (a_disabled a) in
  (test_bool f = true -> selects (test_spec f) (all_tests_h [] suites) (all_tests_h [] l) /\ prune_rel (test_spec f) [] suites l) /\
  (test_bool f = false -> l = suites).
Proof. exact select_cli_proof. Qed.
Print Assumptions C12_select_cli.

(* ------------------------------------------------------------------ laws *)
(* a pattern preceded by ^ (or - or ~) selects the complement of what the pattern selects; for each of the five options *)
Theorem C12_neg_is_complement : forall (h : hier) (c : N) (p k : str), is_flag c -> ~ flagged p ->
  base_call (mkBase [c :: p] [] [] [] []) h = negb (base_call (mkBase [p] [] [] [] []) h) /\
  base_call (mkBase [] [[c :: p]] [] [] []) h = negb (base_call (mkBase [] [[p]] [] [] []) h) /\
  base_call (mkBase [] [] [[c :: p]] [] []) h = negb (base_call (mkBase [] [] [[p]] [] []) h) /\
  base_call (mkBase [] [] [] [[(k, c :: p)]] []) h = negb (base_call (mkBase [] [] [] [[(k, p)]] []) h) /\
  base_call (mkBase [] [] [] [] [[c :: p]]) h = negb (base_call (mkBase [] [] [] [] [[p]]) h).
Proof. exact neg_is_complement_proof. Qed.
Print Assumptions C12_neg_is_complement.

(* the values of one occurrence of an option are OR-ed *)
Theorem C12_values_are_union : forall (h : hier) (g1 g2 : list str) (q1 q2 : list (str * str)),
  g1 <> [] -> g2 <> [] -> q1 <> [] -> q2 <> [] ->
  base_call (mkBase (g1 ++ g2) [] [] [] []) h = base_call (mkBase g1 [] [] [] []) h || base_call (mkBase g2 [] [] [] []) h /\
  base_call (mkBase [] [g1 ++ g2] [] [] []) h = base_call (mkBase [] [g1] [] [] []) h || base_call (mkBase [] [g2] [] [] []) h /\
  base_call (mkBase [] [] [g1 ++ g2] [] []) h = base_call (mkBase [] [] [g1] [] []) h || base_call (mkBase [] [] [g2] [] []) h /\
  base_call (mkBase [] [] [] [q1 ++ q2] []) h = base_call (mkBase [] [] [] [q1] []) h || base_call (mkBase [] [] [] [q2] []) h /\
  base_call (mkBase [] [] [] [] [g1 ++ g2]) h = base_call (mkBase [] [] [] [] [g1]) h || base_call (mkBase [] [] [] [] [g2]) h.
Proof. exact values_are_union_proof. Qed.
Print Assumptions C12_values_are_union.

(* repeated occurrences of an option are AND-ed, and so are different options *)
Theorem C12_options_are_intersection :
  (forall (h : hier) ps d1 d2 t1 t2 p1 p2 l1 l2,
     base_call (mkBase ps (d1 ++ d2) (t1 ++ t2) (p1 ++ p2) (l1 ++ l2)) h =
     base_call (mkBase ps d1 t1 p1 l1) h && base_call (mkBase [] d2 t2 p2 l2) h) /\
  (forall (f : base_filter) (h : hier),
     base_call f h = base_call (mkBase (f_paths f) [] [] [] []) h && base_call (mkBase [] (f_descs f) [] [] []) h &&
                     base_call (mkBase [] [] (f_tags f) [] []) h && base_call (mkBase [] [] [] (f_props f) []) h &&
                     base_call (mkBase [] [] [] [] (f_links f)) h).
Proof. split; [exact options_are_intersection_proof | exact options_split_proof]. Qed.
Print Assumptions C12_options_are_intersection.

(* metadata is inherited: a node satisfying a filter made of non-negated patterns passes it on to everything below it
   (h ++ ext is the hierarchy of any descendant), unless a descendant redefines a property key the filter mentions *)
Theorem C12_inherit : forall (f : base_filter) (h ext : hier),
  positive f ->
  (forall n g kp, In n ext -> In g (f_props f) -> In kp g -> ~ defines n (fst kp)) ->
  base_call f h = true -> base_call f (h ++ ext) = true.
Proof. exact inherit_proof. Qed.
Print Assumptions C12_inherit.

(* an empty filter accepts every test; a filter accepting every test keeps every test; load_suites_from_project does not even
   prune with an empty filter *)
Theorem C12_empty_selects_all :
  (forall f h, test_bool f = false -> test_call f h = true) /\
  (forall keep anc l, (forall h, keep h = true) -> all_tests_h anc (filter_suites keep anc l) = all_tests_h anc l) /\
  (forall suites f, filter_bool f = false -> forallb is_empty suites = false -> load_suites suites f = Ok suites).
Proof. exact empty_selects_all_proof. Qed.
Print Assumptions C12_empty_selects_all.

(* ------------------------------------------------------------------ report-based selection *)
(* with --from-report/--passed/--failed/--skipped/--non-passed/--grep, when no name contains a dot: the selected tests, in the
   project's order, are exactly the project tests for which the report holds a test with the same names along the hierarchy
   whose result satisfies the criteria (report_criteria: the path/desc/tag/property/link options evaluated on the report's
   metadata, the status set, enabled/disabled on the status, --grep on the step texts) *)
Theorem C12_from_report : forall (re_search : str -> str -> bool) (a : cli_args) (rep : report) (suites : list psuite) (f : any_filter),
  uses_report a = true ->
  make_test_filter re_search a rep = Ok f ->
  report_dotfree rep ->
  (forall h, In h (all_tests_h [] suites) -> Forall dotfree (names (map fst h))) ->
  selects (fun h => exists rh rt, In (rh, rt) (report_tests_h rep) /\ names rh = names (map fst h) /\
                                  report_criteria re_search a rh rt)
          (all_tests_h [] suites) (all_tests_h [] (filter_suites (filter_call f) [] suites)).
Proof. exact from_report_proof. Qed.
Print Assumptions C12_from_report.

(* the dot-free hypothesis is necessary: with a dotted name a project test is selected although the report holds no test with
   the same names (project a{"b.c"}, report "a.b"{c: failed}, --failed) *)
Theorem C12_from_report_dotted_refuted : exists re_search a rep suites f h,
  uses_report a = true /\ make_test_filter re_search a rep = Ok f /\ In h (all_tests_h [] suites) /\
  filter_call f h = true /\
  ~ (exists rh rt, In (rh, rt) (report_tests_h rep) /\ names rh = names (map fst h)).
Proof.
  exists substring, w_args_failed, w_report_dotted, w_tree_dotted.
  eexists. eexists. split; [reflexivity|]. split; [vm_compute; reflexivity|]. split; [left; reflexivity|].
  split; [vm_compute; reflexivity|].
  intros [rh [rt [Hi En]]]. vm_compute in Hi. destruct Hi as [Hi|[]]. inversion Hi; subst. vm_compute in En. discriminate.
Qed.
Print Assumptions C12_from_report_dotted_refuted.

(* ------------------------------------------------------------------ non-vacuity *)
(* "a*[b-d]?" matches "axxcz" and not "axxez" *)
Example C12_witness_glob :
  fnmatch [97; 120; 120; 99; 122]%N [97; 42; 91; 98; 45; 100; 93; 63]%N = true /\
  fnmatch [97; 120; 120; 101; 122]%N [97; 42; 91; 98; 45; 100; 93; 63]%N = false /\
  parse_glob [97; 42; 91; 98; 45; 100; 93; 63]%N = [PLit 97%N; PStar; PSet false [SRange 98%N 100%N]; PAny].
Proof. vm_compute. repeat split; reflexivity. Qed.

(* project a{ t1[slow, prio=low], t2, b[slow]{ c (disabled) } }:
   --tag slow keeps a.t1 and (inherited) a.b.c; --tag ^slow keeps a.t2; --tag slow --enabled keeps a.t1 and drops suite b *)
Example C12_witness_select :
  selected_paths (filter_suites (test_call (w_tags [w_slow])) [] w_tree) = [[97; 46; 116; 49]; [97; 46; 98; 46; 99]]%N /\
  selected_paths (filter_suites (test_call (w_tags [94%N :: w_slow])) [] w_tree) = [[97; 46; 116; 50]]%N /\
  map observe (filter_suites (test_call (mkTestFilter (mkBase [] [] [[w_slow]] [] []) true false)) [] w_tree)
    = [ONode w_a [w_t1] []] /\
  selected_paths w_tree = [[97; 46; 116; 49]; [97; 46; 116; 50]; [97; 46; 98; 46; 99]]%N.
Proof. vm_compute. repeat split; reflexivity. Qed.

(* F07: --property prio:^low keeps the tests that have no prio property *)
Example C12_witness_property_negation :
  selected_paths (filter_suites (test_call (mkTestFilter (mkBase [] [] [] [[(w_prio, 94%N :: w_low)]] []) false false)) [] w_tree)
    = [[97; 46; 116; 50]; [97; 46; 98; 46; 99]]%N.
Proof. vm_compute. reflexivity. Qed.

(* the hypotheses of C12_from_report are satisfiable and the selection is a proper non-empty subset: --failed re-selects a.t2 *)
Example C12_witness_from_report :
  uses_report w_args_failed = true /\
  report_dotfree w_report /\
  (forall h, In h (all_tests_h [] w_tree) -> Forall dotfree (names (map fst h))) /\
  exists l, lcc_select substring w_args_failed w_report w_tree = Ok l /\ map observe l = [ONode w_a [w_t2] []].
Proof.
  split; [reflexivity|]. split; [|split].
  - intros rh rt Hi. vm_compute in Hi.
    repeat (destruct Hi as [Hi|Hi]; [inversion Hi; subst; repeat constructor; intros X; vm_compute in X; intuition discriminate|]).
    contradiction.
  - intros h Hi. vm_compute in Hi.
    repeat (destruct Hi as [Hi|Hi]; [subst; repeat constructor; intros X; vm_compute in X; intuition discriminate|]).
    contradiction.
  - eexists. split; vm_compute; reflexivity.
Qed.

(* C12_inherit's hypotheses are satisfiable: suite b satisfies --tag slow, so does a.b.c *)
Example C12_witness_inherit :
  positive (mkBase [] [] [[w_slow]] [] []) /\
  base_call (mkBase [] [] [[w_slow]] [] []) [w_meta w_a [] []; w_meta w_b [w_slow] []] = true.
Proof.
  split; [|vm_compute; reflexivity].
  unfold positive. simpl. repeat split; try (intros; contradiction).
  intros g p [Hg|[]] Hp. subst g. destruct Hp as [Hp|[]]. subst p.
  intros [c [q [E F]]]. inversion E; subst. destruct F as [F|[F|F]]; discriminate.
Qed.
