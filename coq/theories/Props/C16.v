(* C16 — Matchers compute exact boolean logic; check operations keep their contract.
   Only statements here; proofs are in Proofs/MatcherP.v; the models are Model/PyVal.v and Model/Matcher.v.
   `frd_of_source` (gen/TablesMatchers.v) is how operations._format_result_details is written in the source now. *)
From Coq Require Import String.
From Coq Require Import List Bool NArith ZArith.
Import ListNotations.
From LCC Require Import Base.Util Model.PyVal Model.Matcher gen.TablesMatchers Proofs.MatcherP Model.OpsIn Proofs.OpsInP.

(* For every matcher expression (any nesting depth) and every actual value, the verdict of matches() is the truth value
   the expression denotes when read with Python's operators (PyVal) and the connectives not / and / or (sem):
   the result details, the accumulators and the wrappers play no role in it; an exception escapes exactly when the
   reference evaluation raises. *)
Theorem C16_matches_is_sem : forall (m : matcher) (v : pyval), truth (matches m v) = sem m v.
Proof. exact matches_is_sem. Qed.
Print Assumptions C16_matches_is_sem.

(* not_ is exact negation *)
Theorem C16_not_exact : forall m v, truth (matches (Not m) v) = rmap negb (truth (matches m v)).
Proof. exact not_exact. Qed.
Print Assumptions C16_not_exact.

(* all_of is the left-to-right conjunction of its operands, with the short-circuit exactly as coded:
   an operand (and an exception it would raise) is only reached when all the operands before it succeeded *)
Theorem C16_all_of_exact : forall ms v,
  truth (matches (AllOf ms) v) = and_sc (map (fun m => truth (matches m v)) ms).
Proof. exact all_of_exact. Qed.
Print Assumptions C16_all_of_exact.

Theorem C16_any_of_exact : forall ms v,
  truth (matches (AnyOf ms) v) = or_sc (map (fun m => truth (matches m v)) ms).
Proof. exact any_of_exact. Qed.
Print Assumptions C16_any_of_exact.

(* all_of succeeds iff every operand succeeds; any_of fails iff every operand fails *)
Theorem C16_all_of_conjunction : forall ms v,
  truth (matches (AllOf ms) v) = Ok true <-> forall m, In m ms -> truth (matches m v) = Ok true.
Proof. exact all_of_true_iff. Qed.
Print Assumptions C16_all_of_conjunction.

Theorem C16_any_of_disjunction : forall ms v,
  truth (matches (AnyOf ms) v) = Ok false <-> forall m, In m ms -> truth (matches m v) = Ok false.
Proof. exact any_of_false_iff. Qed.
Print Assumptions C16_any_of_disjunction.

(* when no operand raises on v, they are forallb / existsb of the operands' verdicts *)
Theorem C16_all_of_any_of_total : forall ms v bs,
  map (fun m => truth (matches m v)) ms = map Ok bs ->
  truth (matches (AllOf ms) v) = Ok (forallb (fun b => b) bs) /\
  truth (matches (AnyOf ms) v) = Ok (existsb (fun b => b) bs).
Proof. intros ms v bs H. split; [exact (all_of_total ms v bs H) | exact (any_of_total ms v bs H)]. Qed.
Print Assumptions C16_all_of_any_of_total.

(* is_(x) is equal_to(x) for a plain value and the matcher itself for a matcher; all_of / any_of / not_ / has_item ... wrap
   their arguments with is_ (Model/Matcher.v, public constructors) *)
Theorem C16_is_exact : forall x m v, matches (is_ (AVal x)) v = matches (equal_to x) v /\ is_ (AMat m) = m.
Proof. exact is_exact. Qed.
Print Assumptions C16_is_exact.

(* De Morgan holds including evaluation order and exceptions, and double negation is the identity on verdicts *)
Theorem C16_de_morgan : forall ms v,
  truth (matches (Not (AllOf ms)) v) = truth (matches (AnyOf (map Not ms)) v) /\
  truth (matches (Not (AnyOf ms)) v) = truth (matches (AllOf (map Not ms)) v).
Proof. intros. split; [apply de_morgan_all | apply de_morgan_any]. Qed.
Print Assumptions C16_de_morgan.

Theorem C16_double_negation : forall m v, truth (matches (Not (Not m)) v) = truth (matches m v).
Proof. exact double_negation. Qed.
Print Assumptions C16_double_negation.

(* hide_result_details / override_description never change a verdict, wherever they occur in the expression *)
Theorem C16_wrappers_transparent : forall m v, truth (matches (strip m) v) = truth (matches m v).
Proof. exact wrappers_transparent. Qed.
Print Assumptions C16_wrappers_transparent.

(* the value, string, collection and type matchers are the PyVal operators *)
Theorem C16_leaf_value_operators : forall v e lo hi,
  truth (matches (equal_to e) v) = Ok (py_eq v e) /\
  truth (matches (not_equal_to e) v) = Ok (negb (py_eq v e)) /\
  truth (matches (greater_than e) v) = py_cmp Gt v e /\
  truth (matches (greater_than_or_equal_to e) v) = py_cmp Ge v e /\
  truth (matches (less_than e) v) = py_cmp Lt v e /\
  truth (matches (less_than_or_equal_to e) v) = py_cmp Le v e /\
  truth (matches (is_between lo hi) v) = and_sc [py_cmp Le (VInt lo) v; py_cmp Le v (VInt hi)] /\
  truth (matches is_none v) = Ok (match v with VNone => true | _ => false end) /\
  truth (matches is_not_none v) = Ok (match v with VNone => false | _ => true end).
Proof. exact leaf_value_operators. Qed.
Print Assumptions C16_leaf_value_operators.

Theorem C16_leaf_string_operators : forall v s,
  truth (matches (starts_with s) v) = Ok (match v with VStr a => str_prefix s a | _ => false end) /\
  truth (matches (ends_with s) v) = Ok (match v with VStr a => str_suffix s a | _ => false end) /\
  truth (matches (contains_string s) v) = Ok (match v with VStr a => str_contains s a | _ => false end).
Proof. exact leaf_string_operators. Qed.
Print Assumptions C16_leaf_string_operators.

Theorem C16_leaf_collection_operators : forall v l a,
  truth (matches (is_in l) v) = py_in v (VList l) /\
  truth (matches (has_items l) v) = rmap (forallb (fun b => b)) (map_result (fun e => py_in e v) l) /\
  truth (matches (has_item a) v) = bind (py_iter v) (fun items => or_sc (map (fun x => truth (matches (is_ a) x)) items)) /\
  truth (matches (has_all_items a) v) = bind (py_iter v) (fun items => and_all (map (fun x => truth (matches (is_ a) x)) items)) /\
  truth (matches (has_length a) v) = bind (py_len v) (fun n => truth (matches (is_ a) (VInt n))).
Proof. exact leaf_collection_operators. Qed.
Print Assumptions C16_leaf_collection_operators.

Theorem C16_leaf_type_operators : forall v t,
  truth (matches (is_type t None) v) = Ok (has_type t v) /\
  truth (matches is_true v) = Ok (match v with VBool true => true | _ => false end) /\
  truth (matches is_false v) = Ok (match v with VBool false => true | _ => false end).
Proof. exact leaf_type_operators. Qed.
Print Assumptions C16_leaf_type_operators.

(* ---- operations (with _format_result_details as it is in the source now) ----
   check_that: when matches() returns (ok, details): exactly one check, carrying ok (details dropped under quiet), and ok is
   returned -- whatever the details are (None, "", text); when matches() raises e, that exception escapes and nothing is
   recorded. So check_that never raises because of the match result. *)
Theorem C16_check_that_contract : forall v m quiet,
  match matches m v with
  | Ok (ok, d) => check_that frd_of_source v m quiet =
                    ([{| ck_ok := ok; ck_details := if quiet then DNone else d |}], Returns ok)
  | Err e => check_that frd_of_source v m quiet = ([], Raises e)
  end.
Proof. exact check_that_contract. Qed.
Print Assumptions C16_check_that_contract.

(* require_that: the same check, and AbortTest exactly when the match failed *)
Theorem C16_require_that_contract : forall v m quiet,
  match matches m v with
  | Ok (ok, d) => require_that frd_of_source v m quiet =
                    ([{| ck_ok := ok; ck_details := if quiet then DNone else d |}], if ok then Returns true else Raises AbortTest)
  | Err e => require_that frd_of_source v m quiet = ([], Raises e)
  end.
Proof. exact require_that_contract. Qed.
Print Assumptions C16_require_that_contract.

(* assert_that: nothing recorded on success; one failed check and AbortTest on failure *)
Theorem C16_assert_that_contract : forall v m quiet,
  match matches m v with
  | Ok (true, _) => assert_that frd_of_source v m quiet = ([], Returns true)
  | Ok (false, d) => assert_that frd_of_source v m quiet =
                       ([{| ck_ok := false; ck_details := if quiet then DNone else d |}], Raises AbortTest)
  | Err e => assert_that frd_of_source v m quiet = ([], Raises e)
  end.
Proof. exact assert_that_contract. Qed.
Print Assumptions C16_assert_that_contract.

(* the three contracts in terms of the verdict only *)
Theorem C16_operations_summary : forall v m quiet b,
  truth (matches m v) = Ok b ->
  (exists c, check_that frd_of_source v m quiet = ([c], Returns b) /\ ck_ok c = b) /\
  (exists c, require_that frd_of_source v m quiet = ([c], if b then Returns true else Raises AbortTest) /\ ck_ok c = b) /\
  (if b then assert_that frd_of_source v m quiet = ([], Returns true)
   else exists c, assert_that frd_of_source v m quiet = ([c], Raises AbortTest) /\ ck_ok c = false).
Proof. exact operations_summary. Qed.
Print Assumptions C16_operations_summary.

Theorem C16_operations_raise_only_matches_errors : forall v m quiet e,
  truth (matches m v) = Err e ->
  check_that frd_of_source v m quiet = ([], Raises e) /\
  require_that frd_of_source v m quiet = ([], Raises e) /\
  assert_that frd_of_source v m quiet = ([], Raises e).
Proof. exact operations_raise_only_matches_errors. Qed.
Print Assumptions C16_operations_raise_only_matches_errors.

(* F8 (DESIGN section 6): with the capitalisation written details[0].upper() the check_that contract is false:
   a failed any_of whose operands hide their details has details "" and check_that raises IndexError, recording nothing.
   (Statement about the pre-fix variant of the model; fixes/F08-*.patch turns the source into the FrdSlice variant.) *)
Theorem C16_check_that_contract_index0_refuted : exists v m,
  truth (matches m v) = Ok false /\ check_that FrdIndex0 v m false = ([], Raises IndexError).
Proof. exact check_that_contract_index0_refuted. Qed.
Print Assumptions C16_check_that_contract_index0_refuted.

(* non-vacuity: a depth-3 expression mixing connectives, a wrapper and collection matchers, on a nested value;
   an operand that would raise (greater_than on a string) sits behind the short-circuit and is not reached *)
Example C16_witness_expression :
  let m := all_of [AMat (is_list None);
                   AMat (has_item (AMat (any_of [AVal (VInt 7); AMat (hide_result_details (has_entry (VStr (str_of "k"%string)) (Some (AVal (VInt 1)))))])));
                   AMat (not_ (AMat (has_length (AVal (VInt 0)))));
                   AMat (any_of [AMat (is_in [VNone]); AMat (has_all_items (AMat (not_ (AVal (VStr (str_of "x"%string))))))])] in
  let v := VList [VStr (str_of "a"%string); VDict [(KStr (str_of "k"%string), VBool true)]] in
  matches m v = Ok (true, DText) /\ sem m v = Ok true /\
  matches (all_of [AVal (VInt 1); AMat (greater_than (VInt 0))]) (VStr (str_of "a"%string)) = Ok (false, DText) /\
  matches (any_of [AMat (greater_than (VInt 0)); AVal (VStr (str_of "a"%string))]) (VStr (str_of "a"%string)) = Err TypeError.
Proof. vm_compute. repeat split. Qed.

Example C16_witness_operations :
  let m := any_of [AMat (hide_result_details (equal_to (VInt 1))); AMat (hide_result_details (equal_to (VInt 2)))] in
  check_that FrdSlice (VInt 3) m false = ([{| ck_ok := false; ck_details := DEmpty |}], Returns false) /\
  require_that FrdSlice (VInt 3) m true = ([{| ck_ok := false; ck_details := DNone |}], Raises AbortTest) /\
  assert_that FrdSlice (VInt 1) m false = ([], Returns true) /\
  assert_that FrdSlice (VInt 3) (equal_to (VInt 1)) false = ([{| ck_ok := false; ck_details := DText |}], Raises AbortTest).
Proof. vm_compute. repeat split. Qed.

(* ---- the dict operations check_that_in / require_that_in / assert_that_in (operations.py; Model/OpsIn.v: the expected
   structure — key / matcher pairs or nested lists and dicts with matchers at the leaves —, the generator that walks it, the
   list comprehension that runs one operation per (key path, matcher) pair; executed in a real test and compared with
   OpsIn.that_in on every run). [ys] is what the generator yields, [ending] how it ends (None, or the exception raised for a
   malformed structure, after the pairs before it have been processed). ---- *)

(* check_that_in: when no matcher raises, exactly one check per pair, in order, carrying the verdict of
   has_entry(path, matcher) on the actual value, and these verdicts are returned; a match that fails never raises *)
Theorem C16_check_that_in_contract : forall actual quiet ys ending,
  (forall y, In y ys -> exists ok d, matches (he y) actual = Ok (ok, d)) ->
  run_ops (check_that frd_of_source) actual quiet ys ending =
    (flat_map (the_check actual quiet) ys,
     match ending with None => ReturnsAll (map (the_verdict actual) ys) | Some e => RaisesIn e end).
Proof. exact check_that_in_contract. Qed.
Print Assumptions C16_check_that_in_contract.

(* ... and an exception that escapes from check_that_in is the generator's (malformed structure) or one a matcher raised *)
Theorem C16_check_that_in_raises_only_if_matching_raises : forall actual quiet ys ending cs e,
  run_ops (check_that frd_of_source) actual quiet ys ending = (cs, RaisesIn e) ->
  ending = Some e \/ exists y, In y ys /\ matches (he y) actual = Err e.
Proof. exact check_that_in_raises_only_if_matching_raises. Qed.
Print Assumptions C16_check_that_in_raises_only_if_matching_raises.

(* require_that_in: raises AbortTest at the first pair that does not match; that check and those before it are recorded,
   nothing after it is evaluated; when every pair matches it records one successful check per pair and returns *)
Theorem C16_require_that_in_first_failure : forall actual quiet done y rest ending d,
  (forall x, In x done -> exists dx, matches (he x) actual = Ok (true, dx)) ->
  matches (he y) actual = Ok (false, d) ->
  run_ops (require_that frd_of_source) actual quiet (done ++ y :: rest) ending =
    (flat_map (the_check actual quiet) (done ++ [y]), RaisesIn AbortTest).
Proof. exact require_that_in_first_failure. Qed.
Print Assumptions C16_require_that_in_first_failure.
Theorem C16_require_that_in_all_match : forall actual quiet ys,
  (forall x, In x ys -> exists dx, matches (he x) actual = Ok (true, dx)) ->
  run_ops (require_that frd_of_source) actual quiet ys None =
    (flat_map (the_check actual quiet) ys, ReturnsAll (map (fun _ => true) ys)).
Proof. exact require_that_in_all_match. Qed.
Print Assumptions C16_require_that_in_all_match.

(* assert_that_in: nothing recorded for the pairs that match; the first that does not records one failed check and raises *)
Theorem C16_assert_that_in_first_failure : forall actual quiet done y rest ending d,
  (forall x, In x done -> exists dx, matches (he x) actual = Ok (true, dx)) ->
  matches (he y) actual = Ok (false, d) ->
  run_ops (assert_that frd_of_source) actual quiet (done ++ y :: rest) ending =
    ([{| ck_ok := false; ck_details := if quiet then DNone else d |}], RaisesIn AbortTest).
Proof. exact assert_that_in_first_failure. Qed.
Print Assumptions C16_assert_that_in_first_failure.

(* the generator that walks the expected structure raises ValueError exactly on the structures that are not well formed
   (something that is neither a matcher, a list / tuple nor a dict somewhere in it), and every key path it yields extends the
   path it was given: base_key, then the keys and list indexes down to the matcher *)
Theorem C16_that_in_generator : forall a path,
  snd (from_arg a path) = negb (wf_earg a) /\
  (forall p m, In (p, m) (fst (from_arg a path)) -> exists suffix, p = path ++ suffix).
Proof. exact from_arg_spec. Qed.
Print Assumptions C16_that_in_generator.

(* a whole call: the generator ends normally exactly on well-formed arguments — one list / tuple / dict, or key / structure
   pairs, matchers at all the leaves — (otherwise AssertionError / ValueError, after the pairs before the defect have been
   processed), and every key path it hands to an operation starts with base_key *)
Theorem C16_that_in_arguments : forall args base_key,
  (snd (from_args args base_key) = None <-> wf_eargs args = true) /\
  (forall p m, In (p, m) (fst (from_args args base_key)) -> exists suffix, p = key_path base_key ++ suffix).
Proof. exact from_args_spec. Qed.
Print Assumptions C16_that_in_arguments.

(* non-vacuity: a nested structure with a list index and two dict keys; the second leaf fails *)
Example C16_that_in_witness :
  let a := VDict [(KStr (str_of "a"%string), VList [VInt 1; VInt 5]); (KStr (str_of "b"%string), VInt 2)] in
  let args := ASingle (EDict [(VStr (str_of "a"%string), EList [EMatcher (equal_to (VInt 1)); EMatcher (equal_to (VInt 2))]);
                              (VStr (str_of "b"%string), EMatcher (equal_to (VInt 2)))]) in
  snd (that_in (check_that frd_of_source) a args (VList []) false) = ReturnsAll [true; false; true] /\
  snd (that_in (require_that frd_of_source) a args (VList []) false) = RaisesIn AbortTest /\
  length (fst (that_in (require_that frd_of_source) a args (VList []) false)) = 2.
Proof. vm_compute. repeat split. Qed.
