(* C10 — The report on disk is always loadable and is a prefix of the final report.
   Only statements here; proofs in Proofs/PrefixP.v and Proofs/SavingP.v; models in Model/Prefix.v (le_report, DESIGN A.2),
   Model/Saving.v (strategies, FileReportSession, listener order), Model/CrashFS.v (file system with crashes),
   Model/Writer.v (ReportWriter = apply, normalize; shared); the data of the source is gen/TablesSaving.v (`TS.T`, `TS.save_ops_*`),
   regenerated from /repo on every run.

   WHICH REPORTS: `le_report` is stated on the NORMAL FORM (`normalize w`, what the serializer writes) of the writer's live
   state `w`; `apply w e` is Writer.v's ReportWriter.on_<event>.  Modelled, not verified: OS crash semantics (Model/CrashFS.v
   header), the text layer (dump / load are C09's: here a serializer `ser` and a loader `load` with `load (image ser x) = Some x`). *)
From Coq Require Import List NArith ZArith Bool.
Import ListNotations.
From LCC Require Import Base.Util Model.Report Model.Events Model.Writer Model.Prefix Model.Saving Model.CrashFS.
From LCC Require Import Proofs.PrefixP Proofs.SavingP.
From LCC Require Proofs.WriterOrderP Proofs.LinearizeP Proofs.AdmissibleOrderP.
From LCC Require gen.TablesSaving.

(* ---- the order --------------------------------------------------------------------------------------------------------- *)
Theorem C10_le_report_preorder :
  (forall a, le_report a a) /\ (forall a b c, le_report a b -> le_report b c -> le_report a c).
Proof. split; [exact le_report_refl | exact le_report_trans]. Qed.
Print Assumptions C10_le_report_preorder.

(* items shown as finished never change afterwards: a finished step / result / test / suite related by le_* is IDENTICAL in the
   later report, finished top-level suites and finished tests of matched suites are members of the later report, and a finished
   report is the later report (up to the saving stamp) *)
Theorem C10_finished_items_identical :
  (forall a b, le_step a b -> st_end a <> None -> a = b)
  /\ (forall a b, le_result a b -> r_end a <> None -> a = b)
  /\ (forall a b, le_test a b -> r_end (t_result a) <> None -> a = b)
  /\ (forall a b, le_suite a b -> s_end_of a <> None -> a = b)
  /\ (forall a b, le_report a b -> forall s, In s (rp_suites a) -> s_end_of s <> None -> In s (rp_suites b))
  /\ (forall a b, le_suite a b -> forall t, In t (s_tests_of a) -> r_end (t_result t) <> None -> In t (s_tests_of b))
  /\ (forall a b, le_report a b -> rp_end a <> None -> set_saving a None = set_saving b None).
Proof.
  repeat split.
  - exact le_step_finished. - exact le_result_finished. - exact le_test_finished. - exact le_suite_finished.
  - exact le_report_finished_suites. - exact le_suite_finished_tests. - exact le_report_finished.
Qed.
Print Assumptions C10_finished_items_identical.

(* the executable relation evaluated by the correspondence check on loaded files is sound for the Prop *)
Theorem C10_le_report_b_sound : forall a b, le_report_b a b = true -> le_report a b.
Proof. exact le_report_b_sound. Qed.
Print Assumptions C10_le_report_b_sound.

(* ... and complete when the sibling names of the later report are pairwise distinct (reports built by the writer: Writer.v refuses
   duplicates), so a `false` computed by the check means the relation really fails *)
Theorem C10_le_report_b_complete : forall a b, le_report a b -> unique_names b -> le_report_b a b = true.
Proof. exact le_report_b_complete. Qed.
Print Assumptions C10_le_report_b_complete.

(* ---- C10_monotone ------------------------------------------------------------------------------------------------------ *)
(* every event the writer handles only adds items or finishes open ones -- for every event that respects the bracket discipline
   of a run (`admissible`, Model/Saving.v: nothing after SessionEnd, nothing inside an ended suite, no End / step for a finished
   result, no log / StepEnd for an ended step: the stream grammar of C07, evaluated on every real event by the check) *)
Theorem C10_monotone : forall w e w',
  apply w e = Ok w' -> admissible w e = true -> le_report (normalize w) (normalize w').
Proof. exact apply_monotone. Qed.
Print Assumptions C10_monotone.

(* the hypothesis cannot be dropped: the faithful writer model lets a second TestEnd rewrite a finished test *)
Theorem C10_monotone_unrestricted_refuted :
  exists w e w', apply_all init_wstate mono_events = Ok w /\ apply w e = Ok w' /\ admissible w e = false
                 /\ ~ le_report (normalize w) (normalize w').
Proof. exact monotone_needs_admissible. Qed.
Print Assumptions C10_monotone_unrestricted_refuted.

(* hence every snapshot (the report after any number k of events) is a prefix of the final report *)
Theorem C10_every_snapshot_prefix_of_final : forall evs k wk wfinal,
  apply_all init_wstate evs = Ok wfinal -> all_admissible init_wstate evs = true ->
  apply_all init_wstate (firstn k evs) = Ok wk ->
  le_report (normalize wk) (normalize wfinal).
Proof. exact every_snapshot_prefix_of_final. Qed.
Print Assumptions C10_every_snapshot_prefix_of_final.

(* the hypothesis `all_admissible` (the bracket discipline of C07) need only be established for ONE linearization of a run: it is
   invariant under reordering of independent events (Proofs/AdmissibleOrderP.v).  `indep_adm` = the writer's independence,
   minus the pairs whose order admissibility itself reads: the session start / end, and a SuiteEnd against everything inside
   that suite (each exclusion is forced: counter-examples AdmissibleOrderP.Cex).  Two streams of the same tagged events that
   order every dependent pair the same way are both admissible or both not; in particular the stream of a parallel run and
   its sequential rearrangement (the form the check evaluates on recorded pairs of runs). *)
Theorem C10_bracket_discipline_invariant_under_reordering :
  forall (s1 s2 : list (nat * event)) w1,
  NoDup (map fst s1) -> Permutation.Permutation s1 s2 ->
  (forall x y, AdmissibleOrderP.indep_adm (snd x) (snd y) = false -> LinearizeP.before x y s1 -> LinearizeP.before x y s2) ->
  apply_all init_wstate (map snd s1) = Ok w1 -> WriterOrderP.all_aligned init_wstate (map snd s1) ->
  all_admissible init_wstate (map snd s1) = true ->
  all_admissible init_wstate (map snd s2) = true.
Proof. exact AdmissibleOrderP.all_admissible_linearizations. Qed.
Print Assumptions C10_bracket_discipline_invariant_under_reordering.

(* ... fed by a task structure (H1 each task's events keep their order, H2 a task's events follow those of the tasks it depends
   on, H3 dependent events come from the same task or from ordered tasks), every premise executable *)
Theorem C10_bracket_discipline_of_every_task_interleaving :
  forall (task_of : nat -> nat) (orderedb : nat -> nat -> bool) (s1 s2 : list (nat * event)) w1,
  NoDup (map fst s1) -> Permutation.Permutation s1 s2 ->
  LinearizeP.preservedb (fun x y => Nat.eqb (task_of (fst x)) (task_of (fst y))) s1 s2 = true ->
  LinearizeP.startafterb task_of orderedb s1 = true -> LinearizeP.startafterb task_of orderedb s2 = true ->
  AdmissibleOrderP.coverage_admb task_of orderedb s1 = true ->
  apply_all init_wstate (map snd s1) = Ok w1 -> WriterOrderP.all_aligned init_wstate (map snd s1) ->
  all_admissible init_wstate (map snd s1) = true ->
  all_admissible init_wstate (map snd s2) = true.
Proof. exact AdmissibleOrderP.all_admissible_task_linearizations_b. Qed.
Print Assumptions C10_bracket_discipline_of_every_task_interleaving.

(* the writer's own independence is NOT enough for that: a test start swapped behind the end of its suite *)
Theorem C10_bracket_discipline_needs_the_stronger_independence :
  exists s1 s2 w1, LinearizeP.teq WriterOrderP.indep s1 s2 /\ apply_all init_wstate s1 = Ok w1 /\
    WriterOrderP.all_aligned init_wstate s1 /\ all_admissible init_wstate s1 = true /\ all_admissible init_wstate s2 = false.
Proof. exact AdmissibleOrderP.Cex.indep_not_enough. Qed.
Print Assumptions C10_bracket_discipline_needs_the_stronger_independence.

(* ---- C10_snapshot_consistent ------------------------------------------------------------------------------------------- *)
(* writer and file session are listeners called in subscription order by the same handler thread, ReportWriter first
   (Model/Saving.v session_listeners): every save of a run wrote the writer's report after a WHOLE number k of events, k being
   the event that triggered it; the file between two events is the last of them; the writer has seen every event *)
Theorem C10_snapshot_consistent : forall st t0 l s, run TablesSaving.T (init_sstate st t0) l = Ok s ->
  (forall k r, In (k, r) (fs_saves (ss_file s)) ->
     1 <= k <= length l /\ exists wk, apply_all init_wstate (firstn k (map fst l)) = Ok wk /\ r = normalize wk)
  /\ file_snapshot s = last_saved (ss_file s)
  /\ apply_all init_wstate (map fst l) = Ok (ss_writer s).
Proof. exact (snapshot_consistent TablesSaving.T). Qed.
Print Assumptions C10_snapshot_consistent.

(* with the file session subscribed BEFORE the writer the snapshot misses the triggering event *)
Theorem C10_snapshot_wrong_order_refuted :
  exists s s', run_with TablesSaving.T [LFile; LWriter] (init_sstate (Some (SFun FTest)) 0) (map (fun e => (e, clk0)) mono_events) = Ok s
            /\ run TablesSaving.T (init_sstate (Some (SFun FTest)) 0) (map (fun e => (e, clk0)) mono_events) = Ok s'
            /\ ss_writer s = ss_writer s' /\ refreshed s' /\ ~ refreshed s.
Proof. exact wrong_listener_order. Qed.
Print Assumptions C10_snapshot_wrong_order_refuted.

(* ---- C10_strategy_* : `refreshed s'` = the file holds the current report; otherwise the file session is unchanged ------- *)
Theorem C10_final_save : forall s t c s', handle_event TablesSaving.T s (ESessionEnd t, c) = Ok s' -> refreshed s'.
Proof. exact final_save. Qed.
Print Assumptions C10_final_save.

Theorem C10_strategy_at_end_of_tests : forall s e c s', handle_event TablesSaving.T s (e, c) = Ok s' ->
  fs_strategy (ss_file s) = None ->
  if is_session_end e then refreshed s' else ss_file s' = ss_file s.
Proof. exact strategy_at_end_of_tests. Qed.
Print Assumptions C10_strategy_at_end_of_tests.

Theorem C10_strategy_at_each_suite : forall s e c s', handle_event TablesSaving.T s (e, c) = Ok s' ->
  fs_strategy (ss_file s) = Some (SFun FSuite) ->
  if is_suite_end e || is_session_end e then refreshed s' else ss_file s' = ss_file s.
Proof. exact strategy_at_each_suite. Qed.
Print Assumptions C10_strategy_at_each_suite.

(* "each finished test": TestEnd, and also the end of a suite setup / teardown and of the session setup / teardown *)
Theorem C10_strategy_at_each_test : forall s e c s', handle_event TablesSaving.T s (e, c) = Ok s' ->
  fs_strategy (ss_file s) = Some (SFun FTest) ->
  if is_result_end e || is_session_end e then refreshed s' else ss_file s' = ss_file s.
Proof. exact strategy_at_each_test. Qed.
Print Assumptions C10_strategy_at_each_test.

(* the result the End event finishes has status "failed" in the report the writer has just updated *)
Theorem C10_strategy_at_each_failed_test : forall s e c s', handle_event TablesSaving.T s (e, c) = Ok s' ->
  fs_strategy (ss_file s) = Some (SFun FFailedTest) ->
  if match result_end_loc e with Some loc => status_failed (get_result loc (ss_writer s')) | None => false end || is_session_end e
  then refreshed s' else ss_file s' = ss_file s.
Proof. exact strategy_at_each_failed_test. Qed.
Print Assumptions C10_strategy_at_each_failed_test.

(* ... and that result IS in the report, finalized ("passed" or "failed", with its end time): the lookup `report.get(location)` of
   save_at_each_failed_test_strategy cannot fail or find an unfinished result after the writer has handled the End event *)
Theorem C10_end_event_finalizes_its_result : forall w e w' loc,
  apply w e = Ok w' -> result_end_loc e = Some loc -> exists r, get_result loc w' = Some r /\ finalized r.
Proof. exact end_of_result_found. Qed.
Print Assumptions C10_end_event_finalizes_its_result.

(* at_each_log and its deprecated alias at_each_event: log, check, attachment, url *)
Theorem C10_strategy_at_each_log : forall s e c s', handle_event TablesSaving.T s (e, c) = Ok s' ->
  fs_strategy (ss_file s) = Some (SFun FLog) ->
  if is_log_like e || is_session_end e then refreshed s' else ss_file s' = ss_file s.
Proof. exact strategy_at_each_log. Qed.
Print Assumptions C10_strategy_at_each_log.

(* every_Ns: the clock (c_call c, an input) is consulted only on the events the session subscribes to; after a save
   last_saved_time is the clock value read after saving (c_saved c) *)
Theorem C10_strategy_every_N_seconds : forall s e c s' n, handle_event TablesSaving.T s (e, c) = Ok s' ->
  fs_strategy (ss_file s) = Some (SInterval n) ->
  if ((is_result_end e || is_suite_end e || is_log_like e) && Z.ltb (fs_last (ss_file s) + n * 1000) (c_call c)) || is_session_end e
  then refreshed s' /\ fs_last (ss_file s') = c_saved c else ss_file s' = ss_file s.
Proof. exact strategy_every_N_seconds. Qed.
Print Assumptions C10_strategy_every_N_seconds.

(* the --save-report expressions of the source name these strategies *)
Theorem C10_strategy_names :
  let mk := make_strategy TablesSaving.T in
  mk [97;116;95;101;110;100;95;111;102;95;116;101;115;116;115]%N = Ok None
  /\ mk [97;116;95;101;97;99;104;95;115;117;105;116;101]%N = Ok (Some (SFun FSuite))
  /\ mk [97;116;95;101;97;99;104;95;116;101;115;116]%N = Ok (Some (SFun FTest))
  /\ mk [97;116;95;101;97;99;104;95;102;97;105;108;101;100;95;116;101;115;116]%N = Ok (Some (SFun FFailedTest))
  /\ mk [97;116;95;101;97;99;104;95;108;111;103]%N = Ok (Some (SFun FLog))
  /\ mk [97;116;95;101;97;99;104;95;101;118;101;110;116]%N = Ok (Some (SFun FLog))
  /\ mk [101;118;101;114;121;95;49;53;115]%N = Ok (Some (SInterval 15))
  /\ mk [101;118;101;114;121;32;50;115]%N = Ok (Some (SInterval 2))
  /\ mk [101;118;101;114;121;95;115]%N = Err ValueError
  /\ mk (t_default TablesSaving.T) = Ok (Some (SFun FFailedTest)).
Proof. exact strategy_names. Qed.
Print Assumptions C10_strategy_names.

(* ---- C10_loadable_at_every_crash_point ---------------------------------------------------------------------------------- *)
(* For every event history, every strategy, each of the three file backends (their save_report_into_file as found in the source:
   the generated save_ops_json, save_ops_xml, save_ops_junit), every serializer, and EVERY crash point k of the whole sequence of file-system operations of the run
   (before, between and after each operation of each save), the report file of a fresh report directory is absent or is the
   complete image of a snapshot r that (1) was saved by the run, (2) is the writer's report after a whole number j of events,
   (3) is a prefix of the final report, and (4) loads back to r with any loader that inverts the serializer. *)
Theorem C10_loadable_at_every_crash_point :
  forall (st : option strat) (t0 : Z) (l : list (event * clock)) (s : sstate),
    run TablesSaving.T (init_sstate st t0) l = Ok s ->
    forall (save : fpath -> fpath -> list data -> list op),
      In save [TablesSaving.save_ops_json; TablesSaving.save_ops_xml; TablesSaving.save_ops_junit] ->
    forall (ser : report -> list data) (tmp final : fpath) (f0 : fsys) (k : nat),
      tmp <> final -> lookup final f0 = None ->
      let snaps := map snd (fs_saves (ss_file s)) in
      let found := lookup final (exec (firstn k (history_ops (save tmp final) ser snaps)) f0) in
      found = None
      \/ exists j r wj, In (j, r) (fs_saves (ss_file s)) /\ found = Some (image ser r)
                        /\ 1 <= j <= length l /\ apply_all init_wstate (firstn j (map fst l)) = Ok wj /\ r = normalize wj
                        /\ (all_admissible init_wstate (map fst l) = true -> le_report r (normalize (ss_writer s)))
                        /\ (forall load : data -> option report, (forall x, load (image ser x) = Some x) ->
                            exists c, found = Some c /\ load c = Some r).
Proof. exact loadable_at_every_crash_point. Qed.
Print Assumptions C10_loadable_at_every_crash_point.

(* sharper: the file is the image of the LAST COMPLETED save (j saves are complete at crash point k), whatever it held before *)
Theorem C10_crash_point_shows_last_completed_save :
  forall (S : Type) (ser : S -> list data) (tmp final : fpath), tmp <> final ->
  forall (snaps : list S) (f0 : fsys) (k : nat),
    let hops := history_ops (save_atomic tmp final) ser in
    exists j, j <= length snaps
      /\ lookup final (exec (firstn k (hops snaps)) f0)
         = match j with 0 => lookup final f0 | Datatypes.S i => option_map (image ser) (nth_error snaps i) end
      /\ length (hops (firstn j snaps)) <= k
      /\ (k < length (hops (firstn (Datatypes.S j) snaps)) \/ j = length snaps).
Proof. exact crash_atomic_latest. Qed.
Print Assumptions C10_crash_point_shows_last_completed_save.

(* the save sequence of the pinned tree (F5: open(filename, "w") and write in place): right after the truncating open the report
   file is EMPTY whatever it held -- neither absent, nor the previous snapshot, nor the new one *)
Theorem C10_truncate_refuted :
  (forall final chunks f0, lookup final (exec (firstn 1 (save_inplace final chunks)) f0) = Some [])
  /\ exists (ser : unit -> list data) (snaps : list unit) (final : fpath) (f0 : fsys) (k : nat),
       let st := exec (firstn k (history_ops (save_inplace final) ser snaps)) f0 in
       lookup final f0 = None /\
       ~ (lookup final st = lookup final f0 \/ exists s, In s snaps /\ lookup final st = Some (image ser s)).
Proof. split; [exact inplace_truncates | exact inplace_not_safe]. Qed.
Print Assumptions C10_truncate_refuted.

(* ---- non-vacuity ---------------------------------------------------------------------------------------------------------- *)
Definition ex_events : list event :=
  mono_events ++ [ETestStart (mkNode [[115%N]] (mono_meta 117) (-1)) 5;
                  EStepStart (LocTest [[115]; [117]]%N) [120%N] 7%Z 6;
                  ECheck (LocTest [[115]; [117]]%N) [120%N] 7%Z [99%N] false None 7;
                  EStepEnd (LocTest [[115]; [117]]%N) [120%N] 7%Z 8;
                  ETestEnd (mkNode [[115%N]] (mono_meta 117) (-1)) 9;
                  ESuiteEnd mono_suite 10; ESessionEnd 11].

(* a run with two tests (the second one, of lower rank, is inserted BEFORE the first in the normal form, and fails):
   at_each_failed_test saves after the failed TestEnd and at the end; every event is admissible; the first snapshot is a prefix
   of the final report, is not equal to it, and the atomic save sequence at crash point 9 (inside the second save) shows it *)
Example C10_witness_run :
  exists s, run TablesSaving.T (init_sstate (Some (SFun FFailedTest)) 0) (map (fun e => (e, clk0)) ex_events) = Ok s
    /\ map fst (fs_saves (ss_file s)) = [9; 11]
    /\ all_admissible init_wstate ex_events = true
    /\ forallb (fun kr => le_report_b (snd kr) (normalize (ss_writer s))) (fs_saves (ss_file s)) = true
    /\ forallb (fun kr => report_eqb (snd kr) (normalize (ss_writer s))) (fs_saves (ss_file s)) = false
    /\ refreshed s.
Proof.
  destruct (run TablesSaving.T (init_sstate (Some (SFun FFailedTest)) 0) (map (fun e => (e, clk0)) ex_events)) as [s|] eqn:E;
    [|vm_compute in E; discriminate].
  exists s. vm_compute in E. inversion E; subst. repeat split; vm_compute; reflexivity.
Qed.

Example C10_witness_unique_names :
  exists w, apply_all init_wstate ex_events = Ok w /\ unique_names (normalize w).
Proof.
  destruct (apply_all init_wstate ex_events) as [w|] eqn:E; [|vm_compute in E; discriminate].
  exists w. split; [reflexivity|]. vm_compute in E. inversion E; subst. vm_compute.
  repeat split; repeat constructor; simpl; intuition discriminate.
Qed.

Example C10_witness_crash :
  let ser := fun n : nat => [[n]; [n + 100]] in
  let ops := history_ops (save_atomic 1 0) ser [1; 2] in
  length ops = 14
  /\ map (fun k => lookup 0 (exec (firstn k ops) [])) [0; 6; 7; 13; 14]
     = [None; None; Some [1; 101]; Some [1; 101]; Some [2; 102]]
  /\ map (fun k => lookup 0 (exec (firstn k (history_ops (save_inplace 0) ser [1; 2])) [])) [0; 1; 2; 4; 5; 6]
     = [None; Some []; Some [1]; Some [1; 101]; Some []; Some [2]].
Proof. vm_compute. repeat split. Qed.
