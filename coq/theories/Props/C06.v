(* C06 — Logs never leak between concurrently running tests or threads.
   Statements only. Model/TaskSem.v: every thread has its own cursor (threading.local): location, current step, held events.
   Proofs: Proofs/ProtocolP.v, for every project, every script and every thread structure (threads started by threads ...). *)
From Coq Require Import List Arith Bool.
Import ListNotations.
From LCC Require Import Base.Util Model.Proj Model.Sched Model.Fixture Model.TaskSem Model.TaskSemEq Model.Attach
     Proofs.ProtocolP Proofs.AttachP.
From LCC Require Model.Report Model.Events Model.Writer Proofs.WriterFilingP.

(* Everything a task emits (logs, checks, urls, attachments) — from its own thread or from any thread it started — carries
   the task's own location and the identifier of the emitting thread. The report writer files a log under
   (location, thread), so nothing can land in the result of another test. *)
Theorem C06_no_leak : forall pr reg force t md setup_md o,
  task_sem pr reg force t md setup_md = Some o ->
  (forall e l' d th', In e (events_of (to_main o)) -> log_like e = Some (l', d, th') -> l' = task_loc t /\ th' = []) /\
  (forall c e l' d th', In c (to_children o) -> In e (events_of (snd c)) -> log_like e = Some (l', d, th') ->
      l' = task_loc t /\ th' = snd (fst c)).
Proof. exact task_events_stay_home. Qed.
Print Assumptions C06_no_leak.

(* ... inside the step that is current in the emitting thread, in emission order: the events of each thread follow the
   grammar  (StepStart d . log+ . StepEnd d)*  where every log carries the description d of the bracket it lies in, and a
   thread that ends normally leaves no bracket open *)
Theorem C06_in_current_step : forall pr reg force t md setup_md o,
  task_sem pr reg force t md setup_md = Some o -> threads_ok (task_loc t) o.
Proof. exact task_sem_threads_ok. Qed.
Print Assumptions C06_in_current_step.

(* Attachment names: the counter is read and incremented under the session's attachment lock, so for every number of
   threads and every interleaving the names handed out are pairwise distinct ... *)
Theorem C06_attachment_names_distinct : forall (sched : list nat) (nthreads : nat),
  NoDup (names_of (run_locked nthreads sched)).
Proof. exact locked_names_distinct. Qed.
Print Assumptions C06_attachment_names_distinct.

(* ... which is what the lock is for: with the read and the write as separate steps two threads get the same name *)
Theorem C06_attach_without_lock_refuted : exists sched nthreads, ~ NoDup (names_of (run_unlocked nthreads sched)).
Proof. exact unlocked_names_collide. Qed.
Print Assumptions C06_attach_without_lock_refuted.

(* ... and over the whole life of an attachment (prepare_attachment is a context manager: Reserve on entering the block, Commit
   when it ends normally -- the event is fired --, Abandon when user code raises inside it): for every sequence of these
   operations by any threads, nested or interleaved, every number is handed out once, the report never references one
   number twice and references only numbers that were handed out *)
Theorem C06_attachment_blocks_never_share_a_name : forall ops : list aop,
  NoDup (b_all (brun ops)) /\ NoDup (b_refs (brun ops)) /\ incl (b_refs (brun ops)) (b_all (brun ops)).
Proof. exact block_names_distinct. Qed.
Print Assumptions C06_attachment_blocks_never_share_a_name.

(* ... which needs the counter to grow only: if a block that fails gave its number back, two attachments of the report would
   be one file *)
Theorem C06_abandoned_block_giving_its_number_back_refuted : exists ops, ~ NoDup (b_refs (brun_giveback ops)).
Proof. exact giveback_collides. Qed.
Print Assumptions C06_abandoned_block_giving_its_number_back_refuted.

(* non-vacuity: nested and interleaved blocks, one of them abandoned *)
Example C06_attachment_blocks_witness :
  let s := brun [Reserve 0; Reserve 1; Reserve 0; Commit 0; Abandon 0; Commit 1; Reserve 2; Commit 2] in
  b_all s = [1; 2; 3; 4] /\ b_refs s = [3; 2; 4] /\ b_open s = [].
Proof. vm_compute. auto. Qed.

(* ---- the report writer (Model/Writer.v = reporting/writer.py ReportWriter, tied to the code by C18's correspondence) ----
   "recorded in that test's own result, inside the step that was current in the emitting thread ... and never in the result
   of another test": for ANY event stream the writer accepts (no hypothesis on the stream at all). *)
Module WriterLevel.
Import Report Events Writer WriterFilingP.

(* the step object the writer holds open for a thread always exists: it is a step of a result that is in the report *)
Theorem C06_writer_open_steps_exist : forall evs w, apply_all init_wstate evs = Ok w ->
  forall th loc i, lookup_active th (w_active w) = Some (loc, i) ->
  exists r, get_result w loc = Some r /\ i < length (r_steps r).
Proof. exact active_wellformed. Qed.
Print Assumptions C06_writer_open_steps_exist.

(* a log / check / url / attachment event is appended to the step that is open for its EMITTING THREAD, in the result that
   owns that step, at the end of that step's logs (emission order), and nothing else changes: no other result, no other
   thread's open step *)
Theorem C06_writer_files_log_under_emitting_thread : forall w e w' loc th lg loc' i,
  apply w e = Ok w' -> steplog_of e = Some (loc, th, lg) -> lookup_active th (w_active w) = Some (loc', i) ->
  exists r, get_result w loc' = Some r /\ i < length (r_steps r) /\
            get_result w' loc' = Some (result_add_log i lg r) /\
            (forall l, l <> loc' -> get_result w' l = get_result w l) /\
            w_active w' = w_active w /\ w_start w' = w_start w /\ w_end w' = w_end w.
Proof. exact log_filed_with_thread. Qed.
Print Assumptions C06_writer_files_log_under_emitting_thread.

(* no leak, global form: whatever a result of the report holds was emitted by a thread whose open step belonged to that very
   result at that moment *)
Theorem C06_report_logs_come_from_owning_threads : forall evs w, apply_all init_wstate evs = Ok w ->
  forall loc r lg, get_result w loc = Some r -> In lg (logs_of r) ->
  exists evs1 e evs2 w1 l0 th i,
    evs = evs1 ++ e :: evs2 /\ apply_all init_wstate evs1 = Ok w1 /\
    steplog_of e = Some (l0, th, lg) /\ lookup_active th (w_active w1) = Some (loc, i).
Proof. exact logs_come_from_events. Qed.
Print Assumptions C06_report_logs_come_from_owning_threads.
End WriterLevel.
