(* C06 — Logs never leak between concurrently running tests or threads.
   Statements only. Model/TaskSem.v: every thread has its own cursor (threading.local): location, current step, held events.
   Proofs: Proofs/ProtocolP.v, for every project, every script and every thread structure (threads started by threads ...). *)
From Coq Require Import List Arith Bool.
Import ListNotations.
From LCC Require Import Base.Util Model.Proj Model.Sched Model.Fixture Model.TaskSem Model.TaskSemEq Model.Attach
     Proofs.ProtocolP Proofs.AttachP.

(* Everything a task emits (logs, checks, urls, attachments) — from its own thread or from any thread it started — carries
   the task's own location and the identifier of the emitting thread. The report writer files a log under
   (location, thread), so nothing can land in the result of another test. *)
Theorem C06_no_leak : forall pr reg force t md setup_md o,
  task_sem pr reg force t md setup_md = Some o ->
  (forall e l' d th', In e (events_of (to_main o)) -> log_like e = Some (l', d, th') -> l' = task_loc t /\ th' = []) /\
  (forall c e l' d th', In c (to_children o) -> In e (events_of (snd c)) -> log_like e = Some (l', d, th') ->
      l' = task_loc t /\ th' = snd (fst c)).
Proof. exact task_events_stay_home. Qed.
Print Assumptions C06_no_leak.

(* ... inside the step that is current in the emitting thread, in emission order: the events of each thread follow the
   grammar  (StepStart d . log+ . StepEnd d)*  where every log carries the description d of the bracket it lies in, and a
   thread that ends normally leaves no bracket open *)
Theorem C06_in_current_step : forall pr reg force t md setup_md o,
  task_sem pr reg force t md setup_md = Some o -> threads_ok (task_loc t) o.
Proof. exact task_sem_threads_ok. Qed.
Print Assumptions C06_in_current_step.

(* Attachment names: the counter is read and incremented under the session's attachment lock, so for every number of
   threads and every interleaving the names handed out are pairwise distinct ... *)
Theorem C06_attachment_names_distinct : forall (sched : list nat) (nthreads : nat),
  NoDup (names_of (run_locked nthreads sched)).
Proof. exact locked_names_distinct. Qed.
Print Assumptions C06_attachment_names_distinct.

(* ... which is what the lock is for: with the read and the write as separate steps two threads get the same name *)
Theorem C06_attach_without_lock_refuted : exists sched nthreads, ~ NoDup (names_of (run_unlocked nthreads sched)).
Proof. exact unlocked_names_collide. Qed.
Print Assumptions C06_attach_without_lock_refuted.
