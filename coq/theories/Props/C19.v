(* C19 — Starting a run never destroys previous reports within the archive limit.
   Only statements here; proofs are in Proofs/ReportDirP.v; the model is Model/ReportDir.v. *)
From Coq Require Import List Arith.
Import ListNotations.
From LCC Require Import Model.ReportDir Proofs.ReportDirP.

(* For every history of runs (any limits, including none), manual deletions of arbitrary archives and removals of report/
   itself, starting from an empty project directory, the rotation never fails ... *)
Theorem C19_histories_total : forall ops : list op, exists s, exec ops 0 init_state = Some s.
Proof. exact histories_total. Qed.
Print Assumptions C19_histories_total.

(* ... and every run started in a reachable state satisfies run_post: the previous report becomes archive 1 and the
   most recent one, surviving archives keep their relative recency order, archives disappear only under a limit L,
   only from number L upwards, only when archives 1..L all exist, nothing with a number below L is lost,
   and the new report directory belongs to the new run alone. *)
Theorem C19_no_loss : forall (ops : list op) (limit : option nat) (s s' : state),
  exec ops 0 init_state = Some s -> run limit (runs ops) s = Some s' ->
  run_post limit (runs ops) s s'.
Proof. exact every_run_safe. Qed.
Print Assumptions C19_no_loss.

(* when report/ is not there (first run, or the user removed it or moved it away), a run touches no archive at all, whatever
   the limit and however many archives there are: nothing is purged to make room for a report that does not exist *)
Theorem C19_no_report_no_purge : forall (ops : list op) (limit : option nat) (s s' : state),
  exec ops 0 init_state = Some s -> cur s = None -> run limit (runs ops) s = Some s' ->
  arch s' = arch s /\ cur s' = Some (runs ops).
Proof. exact run_without_report_keeps_archives. Qed.
Print Assumptions C19_no_report_no_purge.

(* a manual deletion removes exactly the directory named *)
Theorem C19_delete_exact : forall k s, cur (delete k s) = cur s /\
  forall k' m, In (k', m) (arch (delete k s)) <-> In (k', m) (arch s) /\ k' <> k.
Proof. exact every_delete_exact. Qed.
Print Assumptions C19_delete_exact.

(* non-vacuity: a history that reaches the limit, with a hole made by a deletion *)
Example C19_witness :
  exists s, exec [Run (Some 3); Run (Some 3); Run (Some 3); Run (Some 3); Delete 2; Run (Some 3); Run (Some 3)] 0 init_state = Some s
            /\ observe s = (Some 5, [(1, 4); (2, 3); (3, 2)]).
Proof. eexists. split; vm_compute; reflexivity. Qed.

(* non-vacuity of C19_no_report_no_purge: a full set of archives (limit 2), report/ removed, then a run *)
Example C19_no_report_witness :
  exists s, exec [Run (Some 2); Run (Some 2); Run (Some 2); Drop] 0 init_state = Some s /\ cur s = None /\ length (arch s) = 2
            /\ exists s', run (Some 2) 3 s = Some s' /\ observe s' = (Some 3, [(1, 1); (2, 0)]).
Proof. eexists. repeat split; try (vm_compute; reflexivity). eexists. split; vm_compute; reflexivity. Qed.
