(* C15 — Per-thread fixtures and ThreadedFactory objects are never shared between threads.
   Only statements here; proofs are in Proofs/ThreadedP.v; the model is Model/Threaded.v.
   Every theorem quantifies over ALL schedules [sch : list actor] (any number of threads, any interleaving of the
   source lines of get_object of different threads and of teardown_factory) and over all outcomes [c : cfg] of the
   user code (which setup_object / teardown_object calls raise).
   Assumed (not proved): threading.local gives each thread its own slot; list.append and attribute assignment are atomic
   (GIL); a thread executes one get_object at a time (setup_object does not call get_object of the same factory);
   teardown_factory is called once (ScheduledFixtures._teardown_fixture deletes the result after calling teardown). *)
From Coq Require Import List Arith.
Import ListNotations.
From LCC Require Import Model.Threaded Proofs.ThreadedP.

(* at most one object is ever created per thread, and setup_object is called on a thread at most once more than
   it raised on that thread (so: exactly once when it does not raise) *)
Theorem C15_at_most_one_per_thread : forall (c : cfg) (sch : list actor),
  NoDup (map fst (created (run c sch))) /\
  forall t, count_occ Nat.eq_dec (setup_calls (run c sch)) t <= 1 + count_occ Nat.eq_dec (failed (run c sch)) t.
Proof. exact at_most_one. Qed.
Print Assumptions C15_at_most_one_per_thread.

(* whatever get_object returned to thread t was created by a setup_object call made on thread t, by no other thread,
   was never returned to another thread and never sits in another thread's slot *)
Theorem C15_owner_only : forall (c : cfg) (sch : list actor) (t : tid) (o : obj),
  In (t, Some o) (accesses (run c sch)) ->
  In (t, o) (created (run c sch)) /\
  (forall t', In (t', o) (created (run c sch)) -> t' = t) /\
  (forall t', In (t', Some o) (accesses (run c sch)) -> t' = t) /\
  (forall t', locals (run c sch) t' = Some o -> t' = t).
Proof. exact owner_only. Qed.
Print Assumptions C15_owner_only.

(* reuse: once a thread holds its object (after any prefix sch1), whatever anybody does afterwards (any sch2) the thread
   keeps that object, setup_object is not called on that thread again, and every get_object the thread completes
   returns exactly that object ... *)
Theorem C15_reused : forall (c : cfg) (sch1 sch2 : list actor) (t : tid) (o : obj),
  locals (run c sch1) t = Some o ->
  locals (run c (sch1 ++ sch2)) t = Some o /\
  count_occ Nat.eq_dec (setup_calls (run c (sch1 ++ sch2))) t = count_occ Nat.eq_dec (setup_calls (run c sch1)) t /\
  new_accesses_return t o (accesses (run c sch1)) (accesses (run c (sch1 ++ sch2))).
Proof. exact reused. Qed.
Print Assumptions C15_reused.

(* ... in particular all successful accesses of one thread in a run return the same object *)
Theorem C15_reused_same_object : forall (c : cfg) (sch : list actor) (t : tid) (o o' : obj),
  In (t, Some o) (accesses (run c sch)) -> In (t, Some o') (accesses (run c sch)) -> o = o'.
Proof. exact same_object. Qed.
Print Assumptions C15_reused_same_object.

(* teardown, at every moment of every run (even when teardown_object raises): no object is torn down twice and only
   created objects are torn down *)
Theorem C15_never_torn_down_twice : forall (c : cfg) (sch : list actor),
  NoDup (torn (run c sch)) /\ forall o, In o (torn (run c sch)) -> exists t, In (t, o) (created (run c sch)).
Proof. exact never_twice. Qed.
Print Assumptions C15_never_torn_down_twice.

(* teardown racing with first accesses: at the step in which teardown_factory returns, it has torn down exactly the
   list _objects, and every object created so far has been torn down EXCEPT those whose creating thread is still
   between the return of setup_object and self._objects.append (in_flight) *)
Theorem C15_torn_down_all_but_in_flight : forall (c : cfg) (sch : list actor), teardown_returns_after c sch ->
  torn (run c (sch ++ [Main])) = objects (run c (sch ++ [Main])) /\
  forall t o, In (t, o) (created (run c (sch ++ [Main]))) ->
              In o (torn (run c (sch ++ [Main]))) \/ in_flight (run c (sch ++ [Main])) t o.
Proof. exact teardown_complete. Qed.
Print Assumptions C15_torn_down_all_but_in_flight.

(* the framework's situation (the teardown task of the scope depends on every test of the scope, so no thread is inside
   get_object): every created object is torn down exactly once, none twice, none forgotten, nothing else *)
Theorem C15_torn_down_exactly_once : forall (c : cfg) (sch : list actor), teardown_returns_after c sch ->
  (forall t o, ~ in_flight (run c (sch ++ [Main])) t o) ->
  NoDup (torn (run c (sch ++ [Main]))) /\
  forall o, In o (torn (run c (sch ++ [Main]))) <-> exists t, In (t, o) (created (run c (sch ++ [Main]))).
Proof. exact teardown_exact. Qed.
Print Assumptions C15_torn_down_exactly_once.

(* the hypothesis [teardown_returns_after] is always reachable: whenever teardown_factory has not been called yet and no
   teardown_object raises, letting the calling code run (alone) makes teardown_factory return after finitely many steps *)
Theorem C15_teardown_completes : forall (c : cfg) (sch : list actor),
  (forall o, td_fails c o = false) -> td (run c sch) = TdNotCalled ->
  exists k, teardown_returns_after c (sch ++ repeat Main k).
Proof. exact teardown_completes. Qed.
Print Assumptions C15_teardown_completes.

(* ---- what does NOT hold of the code as it is ---- *)

(* (a) without the no-thread-in-flight hypothesis "none forgotten" is false: teardown_factory called while thread 0 is
   between setup_object and the append; the thread then completes, receives object 0, and object 0 is never torn down.
   Reachable only through the public ThreadedFactory API (teardown_factory called while another thread is in its first
   get_object), not through the fixture scheduler. *)
Definition sch_inflight : list actor := [Th 0; Th 0; Th 0; Th 0; Main; Main; Th 0; Th 0; Th 0].
Theorem C15_torn_down_in_flight_refuted : exists (sch : list actor) (t : tid) (o : obj),
  let s := run no_failure sch in
  In (t, Some o) (accesses s) /\ pcs s t = Idle /\ td s = TdDone /\ In o (objects s) /\ ~ In o (torn s).
Proof. exists sch_inflight, 0, 0. vm_compute. intuition discriminate. Qed.
Print Assumptions C15_torn_down_in_flight_refuted.

(* (b) when teardown_object raises for one object, the loop in teardown_factory is left and the objects of the other
   threads are never torn down, although every thread was idle when teardown_factory was called.
   Reachable through the scheduler: a per-thread generator fixture whose code after the yield raises on one thread. *)
Definition sch_raise : list actor :=
  [Th 0; Th 0; Th 0; Th 0; Th 0; Th 0; Th 0; Th 1; Th 1; Th 1; Th 1; Th 1; Th 1; Th 1; Main; Main; Main; Main; Main; Main].
Theorem C15_torn_down_after_raise_refuted : exists (c : cfg) (sch : list actor) (t : tid) (o : obj),
  let s := run c sch in
  In (t, Some o) (accesses s) /\ pcs s 0 = Idle /\ pcs s 1 = Idle /\ length (created s) = 2 /\ td s = TdRaised /\
  In o (objects s) /\ ~ In o (torn s) /\ torn (run c (sch ++ [Main; Main; Main])) = torn s.
Proof. exists (cfg_of [] [0]), sch_raise, 1, 1. vm_compute. intuition discriminate. Qed.
Print Assumptions C15_torn_down_after_raise_refuted.

(* ---- non-vacuity: three threads racing on their first access, a failing setup on thread 2 that is retried, reuse,
   then teardown with everybody idle: the hypotheses of C15_torn_down_exactly_once hold and three objects are torn down *)
Definition sch_witness : list actor :=
  [Th 0; Th 1; Th 0; Th 2; Th 1; Th 0; Th 2; Th 2; Th 1; Th 2; Th 0; Th 1; Th 1; Th 0; Th 0; Th 1; Th 0; Th 1;
   Th 2; Th 2; Th 2; Th 2; Th 2; Th 2; Th 2; Th 0; Th 0; Main; Main; Main; Main; Main; Main; Main].
Example C15_witness :
  teardown_returns_after (cfg_of [(2, 0)] []) sch_witness /\
  o_torn (observe 3 (run (cfg_of [(2, 0)] []) (sch_witness ++ [Main]))) = [0; 1; 2] /\
  o_accesses (observe 3 (run (cfg_of [(2, 0)] []) (sch_witness ++ [Main]))) =
    [(2, None); (0, Some 0); (1, Some 1); (2, Some 2); (0, Some 0)] /\
  o_pcs (observe 3 (run (cfg_of [(2, 0)] []) (sch_witness ++ [Main]))) = [(0, 0); (0, 0); (0, 0)].
Proof. unfold teardown_returns_after. vm_compute. repeat split; congruence. Qed.
