(* C15 — Per-thread fixtures and ThreadedFactory objects are never shared between threads.
   Only statements here; proofs are in Proofs/ThreadedP.v; the model is Model/Threaded.v (teardown_factory as repaired by
   fixes/F21-threaded-factory-teardown-all.patch: every object is torn down even when teardown_object raises, the first
   failure is raised at the end).
   Every theorem quantifies over ALL schedules [sch : list actor] (any number of threads, any interleaving of the
   source lines of get_object of different threads and of teardown_factory) and over all outcomes [c : cfg] of the
   user code (which setup_object calls raise; which teardown_object calls raise an Exception or a BaseException that is
   not an Exception).
   Assumed (not proved): threading.local gives each thread its own slot; list.append and attribute assignment are atomic
   (GIL); a thread executes one get_object at a time (setup_object does not call get_object of the same factory);
   teardown_factory is called once (ScheduledFixtures._teardown_fixture deletes the result after calling teardown). *)
From Coq Require Import List Arith.
Import ListNotations.
From LCC Require Import Model.Threaded Proofs.ThreadedP.

(* at most one object is ever created per thread, and setup_object is called on a thread at most once more than
   it raised on that thread (so: exactly once when it does not raise) *)
Theorem C15_at_most_one_per_thread : forall (c : cfg) (sch : list actor),
  NoDup (map fst (created (run c sch))) /\
  forall t, count_occ Nat.eq_dec (setup_calls (run c sch)) t <= 1 + count_occ Nat.eq_dec (failed (run c sch)) t.
Proof. exact at_most_one. Qed.
Print Assumptions C15_at_most_one_per_thread.

(* whatever get_object returned to thread t was created by a setup_object call made on thread t, by no other thread,
   was never returned to another thread and never sits in another thread's slot *)
Theorem C15_owner_only : forall (c : cfg) (sch : list actor) (t : tid) (o : obj),
  In (t, Some o) (accesses (run c sch)) ->
  In (t, o) (created (run c sch)) /\
  (forall t', In (t', o) (created (run c sch)) -> t' = t) /\
  (forall t', In (t', Some o) (accesses (run c sch)) -> t' = t) /\
  (forall t', locals (run c sch) t' = Some o -> t' = t).
Proof. exact owner_only. Qed.
Print Assumptions C15_owner_only.

(* reuse: once a thread holds its object (after any prefix sch1), whatever anybody does afterwards (any sch2) the thread
   keeps that object, setup_object is not called on that thread again, and every get_object the thread completes
   returns exactly that object ... *)
Theorem C15_reused : forall (c : cfg) (sch1 sch2 : list actor) (t : tid) (o : obj),
  locals (run c sch1) t = Some o ->
  locals (run c (sch1 ++ sch2)) t = Some o /\
  count_occ Nat.eq_dec (setup_calls (run c (sch1 ++ sch2))) t = count_occ Nat.eq_dec (setup_calls (run c sch1)) t /\
  new_accesses_return t o (accesses (run c sch1)) (accesses (run c (sch1 ++ sch2))).
Proof. exact reused. Qed.
Print Assumptions C15_reused.

(* ... in particular all successful accesses of one thread in a run return the same object *)
Theorem C15_reused_same_object : forall (c : cfg) (sch : list actor) (t : tid) (o o' : obj),
  In (t, Some o) (accesses (run c sch)) -> In (t, Some o') (accesses (run c sch)) -> o = o'.
Proof. exact same_object. Qed.
Print Assumptions C15_reused_same_object.

(* teardown, at every moment of every run (whatever teardown_object raises): no object is torn down twice and only
   created objects are torn down *)
Theorem C15_never_torn_down_twice : forall (c : cfg) (sch : list actor),
  NoDup (torn (run c sch)) /\ forall o, In o (torn (run c sch)) -> exists t, In (t, o) (created (run c sch)).
Proof. exact never_twice. Qed.
Print Assumptions C15_never_torn_down_twice.

(* teardown racing with first accesses, whatever teardown_object raised (Exceptions): at the step in which the loop of
   teardown_factory ends (the for line finds the list exhausted), teardown_factory has torn down exactly the list
   _objects, and every object created so far has been torn down EXCEPT those whose creating thread is still between
   the return of setup_object and self._objects.append (in_flight) ... *)
Theorem C15_torn_down_all_but_in_flight : forall (c : cfg) (sch : list actor), teardown_loop_ends_after c sch ->
  torn (run c (sch ++ [Main])) = objects (run c (sch ++ [Main])) /\
  forall t o, In (t, o) (created (run c (sch ++ [Main]))) ->
              In o (torn (run c (sch ++ [Main]))) \/ in_flight (run c (sch ++ [Main])) t o.
Proof. exact loop_end. Qed.
Print Assumptions C15_torn_down_all_but_in_flight.

(* ... and nothing is torn down after the loop (the two last lines of the repaired teardown_factory only re-raise) *)
Theorem C15_nothing_torn_down_after_loop : forall (c : cfg) (sch1 sch2 : list actor),
  after_loop (td (run c sch1)) = true -> torn (run c (sch1 ++ sch2)) = torn (run c sch1).
Proof. exact nothing_after_loop. Qed.
Print Assumptions C15_nothing_torn_down_after_loop.

(* exactly once, for every interleaving and EVEN WHEN teardown_object RAISES: when teardown_factory has finished (returned,
   or raised the first failure at its last line) and at no moment since the end of its loop a thread was between the
   return of setup_object and the append, every created object has been torn down exactly once: none twice, none
   forgotten, nothing else.  (Before the repair this needed "no teardown_object raises".) *)
Theorem C15_torn_down_exactly_once : forall (c : cfg) (sch : list actor),
  td_finished (td (run c sch)) = true -> quiet_after_loop c sch ->
  NoDup (torn (run c sch)) /\
  forall o, In o (torn (run c sch)) <-> exists t, In (t, o) (created (run c sch)).
Proof. exact teardown_exact. Qed.
Print Assumptions C15_torn_down_exactly_once.

(* the framework's situation (the teardown task of the scope depends on every test of the scope, so no thread is inside
   get_object when teardown_factory is called and none enters it while it runs): whatever happened before (any sch),
   if no thread is in flight when teardown_factory is called and it then runs to its end, every created object has
   been torn down exactly once *)
Theorem C15_torn_down_exactly_once_alone : forall (c : cfg) (sch : list actor) (k : nat),
  td (run c sch) = TdNotCalled -> (forall t o, ~ in_flight (run c sch) t o) ->
  td_finished (td (run c (sch ++ repeat Main k))) = true ->
  NoDup (torn (run c (sch ++ repeat Main k))) /\
  forall o, In o (torn (run c (sch ++ repeat Main k))) <-> exists t, In (t, o) (created (run c (sch ++ repeat Main k))).
Proof. exact teardown_exact_alone. Qed.
Print Assumptions C15_torn_down_exactly_once_alone.

(* the hypothesis "finished" is always reachable, also when teardown_object raises Exceptions: whenever teardown_factory has
   not been called yet and no teardown_object raises a BaseException that is not an Exception, letting the calling code
   run (alone) makes teardown_factory return or raise at its last line after finitely many steps *)
Theorem C15_teardown_completes : forall (c : cfg) (sch : list actor),
  (forall o, td_outcome c o <> TdBaseExc) -> td (run c sch) = TdNotCalled ->
  exists k, teardown_finishes_after c (sch ++ repeat Main k).
Proof. exact teardown_completes. Qed.
Print Assumptions C15_teardown_completes.

(* what teardown_factory does at its end: it returns iff no teardown_object call raised, otherwise it raises the
   exception of the FIRST teardown_object call that raised (in teardown order) *)
Theorem C15_first_failure_raised : forall (c : cfg) (sch : list actor),
  (td (run c sch) = TdDone -> find (td_fails c) (torn (run c sch)) = None) /\
  (forall e, td (run c sch) = TdRaised e -> find (td_fails c) (torn (run c sch)) = Some e).
Proof. exact first_failure. Qed.
Print Assumptions C15_first_failure_raised.

(* ---- what does NOT hold ---- *)

(* (a) without the no-thread-in-flight hypothesis "none forgotten" is false: teardown_factory called while thread 0 is
   between setup_object and the append; the loop ends (nothing to tear down), the thread then appends and completes,
   receives object 0, teardown_factory returns with every thread idle, and object 0 is never torn down.
   Reachable only through the public ThreadedFactory API (teardown_factory called while another thread is in its first
   get_object), not through the fixture scheduler.  OPEN known finding. *)
Definition sch_inflight : list actor := [Th 0; Th 0; Th 0; Th 0; Main; Main; Main; Th 0; Th 0; Th 0; Main].
Theorem C15_torn_down_in_flight_refuted : exists (sch : list actor) (t : tid) (o : obj),
  let s := run no_failure sch in
  In (t, Some o) (accesses s) /\ pcs s t = Idle /\ td s = TdDone /\ In o (objects s) /\ ~ In o (torn s).
Proof. exists sch_inflight, 0, 0. vm_compute. intuition discriminate. Qed.
Print Assumptions C15_torn_down_in_flight_refuted.

(* (b) the code BEFORE the repair fixes/F21 (Model.Threaded.step_main_unfixed: `for obj in self._objects:
   self.teardown_object(obj)`): when teardown_object raised for one object, the loop was left and the objects of the
   other threads were never torn down, although every thread was idle when teardown_factory was called.
   Was reachable through the scheduler: a per-thread generator fixture whose code after the yield raises on one thread.
   FIXED: C15_torn_down_exactly_once above holds of the repaired code without any hypothesis on teardown_object. *)
Definition sch_raise : list actor :=
  [Th 0; Th 0; Th 0; Th 0; Th 0; Th 0; Th 0; Th 1; Th 1; Th 1; Th 1; Th 1; Th 1; Th 1; Main; Main; Main; Main; Main; Main].
Theorem C15_torn_down_after_raise_unfixed_refuted : exists (c : cfg) (sch : list actor) (t : tid) (o : obj),
  let s := run_unfixed c sch in
  In (t, Some o) (accesses s) /\ pcs s 0 = Idle /\ pcs s 1 = Idle /\ length (created s) = 2 /\ td s = TdRaised 0 /\
  In o (objects s) /\ ~ In o (torn s) /\ torn (run_unfixed c (sch ++ [Main; Main; Main])) = torn s.
Proof. exists (cfg_of [] [0] []), sch_raise, 1, 1. vm_compute. intuition discriminate. Qed.
Print Assumptions C15_torn_down_after_raise_unfixed_refuted.

(* (c) the repaired loop catches `Exception` only: a teardown_object that raises a BaseException which is not an Exception
   (KeyboardInterrupt, SystemExit) still leaves teardown_factory at once and the remaining objects are not torn down
   (intended: an interrupt must not be swallowed).  This is why C15_teardown_completes has its hypothesis and why
   C15_torn_down_exactly_once speaks about a teardown_factory that has FINISHED (td_finished), not one that was aborted. *)
Theorem C15_torn_down_after_base_exception_refuted : exists (c : cfg) (sch : list actor) (t : tid) (o : obj),
  let s := run c sch in
  In (t, Some o) (accesses s) /\ pcs s 0 = Idle /\ pcs s 1 = Idle /\ length (created s) = 2 /\ td s = TdAborted 0 /\
  In o (objects s) /\ ~ In o (torn s) /\ torn (run c (sch ++ [Main; Main; Main])) = torn s.
Proof. exists (cfg_of [] [] [0]), sch_raise, 1, 1. vm_compute. intuition discriminate. Qed.
Print Assumptions C15_torn_down_after_base_exception_refuted.

(* ---- non-vacuity: three threads racing on their first access, a failing setup on thread 2 that is retried, reuse,
   then teardown with everybody idle, where the teardown of objects 1 and 2 raises: the hypotheses of
   C15_torn_down_exactly_once_alone (hence, by Proofs.ThreadedP.quiet_alone, those of C15_torn_down_exactly_once) hold,
   all three objects are torn down and the failure of object 1 (the first one) is what teardown_factory raises *)
Definition sch_witness : list actor :=
  [Th 0; Th 1; Th 0; Th 2; Th 1; Th 0; Th 2; Th 2; Th 1; Th 2; Th 0; Th 1; Th 1; Th 0; Th 0; Th 1; Th 0; Th 1;
   Th 2; Th 2; Th 2; Th 2; Th 2; Th 2; Th 2; Th 0; Th 0].
Definition cfg_witness : cfg := cfg_of [(2, 0)] [1; 2] [].
Example C15_witness :
  td (run cfg_witness sch_witness) = TdNotCalled /\
  (forall t o, ~ in_flight (run cfg_witness sch_witness) t o) /\
  teardown_finishes_after cfg_witness (sch_witness ++ repeat Main 18) /\
  quiet_after_loop cfg_witness (sch_witness ++ repeat Main 19) /\
  td (run cfg_witness (sch_witness ++ repeat Main 19)) = TdRaised 1 /\
  o_torn (observe 3 (run cfg_witness (sch_witness ++ repeat Main 19))) = [0; 1; 2] /\
  o_accesses (observe 3 (run cfg_witness (sch_witness ++ repeat Main 19))) =
    [(2, None); (0, Some 0); (1, Some 1); (2, Some 2); (0, Some 0)] /\
  o_pcs (observe 3 (run cfg_witness (sch_witness ++ repeat Main 19))) = [(0, 0); (0, 0); (0, 0)].
Proof.
  assert (Hq : forall t o, ~ in_flight (run cfg_witness sch_witness) t o).
  { intros t o [H|H]; do 3 (destruct t as [|t]; [vm_compute in H; discriminate|]); vm_compute in H; discriminate. }
  split; [vm_compute; reflexivity|]. split; [exact Hq|].
  split; [unfold teardown_finishes_after; vm_compute; split; reflexivity|].
  split; [apply quiet_alone; [vm_compute; reflexivity|exact Hq]|].
  vm_compute. repeat split; congruence.
Qed.

(* the same run with nothing raising returns normally (13 steps of teardown_factory for three objects) *)
Example C15_witness_returns :
  td (run (cfg_of [(2, 0)] [] []) (sch_witness ++ repeat Main 13)) = TdDone /\
  torn (run (cfg_of [(2, 0)] [] []) (sch_witness ++ repeat Main 13)) = [0; 1; 2].
Proof. vm_compute. split; reflexivity. Qed.
