(* C01 — Every scheduled test is accounted for exactly once and the run terminates.
   Statements only. Layer 1 (the dispatch loop of task.py, Model/Sched.v): for EVERY well-formed task graph, every number of
   worker threads n >= 1, every result the tasks may produce and every interleaving of main thread, workers and flag-raising
   user code. Proofs: Proofs/SchedP.v. *)
From Coq Require Import List Arith Bool.
Import ListNotations.
From LCC Require Import Base.Util Model.Proj Model.Sched Proofs.SchedP.

(* no deadlock: in every reachable state in which no worker thread has been killed, as long as the main loop is not over
   some task-level move is enabled *)
Theorem C01_no_deadlock : forall g rk n sof s,
  wf g rk -> 1 <= n -> reachable g n sof s -> dead s = [] -> pc s <> PDone ->
  exists m s', task_move m = true /\ step g n sof s m = Some s'.
Proof. intros g rk n sof s W Hn R. apply (progress g rk n sof s W Hn). apply (reachable_Inv g n sof s Hn R). Qed.
Print Assumptions C01_no_deadlock.

(* termination: whatever the schedule, at most 3*|tasks|+2 task-level moves can ever be made (flag moves do not count:
   they are made by user code, which is assumed to terminate) *)
Theorem C01_terminates : forall g n sof ms s,
  1 <= n -> run g n sof (init g n) ms = Some s -> count_task_moves ms <= 3 * length g + 2.
Proof.
  intros g n sof ms s Hn H.
  pose proof (bounded_task_moves g n sof ms (init g n) s Hn (init_Inv g n Hn) H).
  pose proof (init_weight g n). Lia.lia.
Qed.
Print Assumptions C01_terminates.

(* every task is taken by a worker at most once, finishes at most once and is acknowledged by the main thread at most once,
   in every reachable state; and exactly once each when the run is over, and then no worker died *)
Theorem C01_each_task_at_most_once : forall g n sof ms s t,
  1 <= n -> run g n sof (init g n) ms = Some s ->
  count (is_take t) ms <= 1 /\ count (is_finish t) ms <= 1 /\ count (is_main t) ms <= 1.
Proof. exact at_most_once. Qed.
Print Assumptions C01_each_task_at_most_once.

Theorem C01_each_task_exactly_once : forall g n sof ms s t,
  1 <= n -> run g n sof (init g n) ms = Some s -> finished g s = true -> t < length g ->
  count (is_take t) ms = 1 /\ count (is_finish t) ms = 1 /\ count (is_main t) ms = 1 /\ dead s = [].
Proof. exact exactly_once_when_finished. Qed.
Print Assumptions C01_each_task_exactly_once.

(* the bookkeeping never loses or duplicates a task: remaining / pool queue / running / completion queue / completed / dead
   always partition the task set *)
Theorem C01_partition : forall g n sof s, 1 <= n -> reachable g n sof s ->
  Permutation.Permutation (everything s) (seq 0 (length g)) /\ length (running s) <= n.
Proof. intros g n sof s Hn R. pose proof (reachable_Inv g n sof s Hn R) as I. split; apply I. Qed.
Print Assumptions C01_partition.

(* the executable well-formedness check evaluated on the task graph of every co-simulated run (a topological order computed
   by [toposort]) is sound: a graph that passes it is well formed, so the theorems above apply to it *)
Theorem C01_wf_check_sound : forall g order, wf_b g order = true -> wf g (fun i => index_of i order).
Proof. exact wf_b_sound. Qed.
Print Assumptions C01_wf_check_sound.

(* F15 (why run_task must catch BaseException; fixed in /repo): if a worker thread were killed by a BaseException raised
   by user code before the completion put (move MDie), the run would never end:
   a reachable state with a main loop that is not over and no enabled task move (other than the user pressing Ctrl-C,
   after which the main thread drains the completion queue forever) *)
Theorem C01_worker_death_deadlocks_refuted :
  exists g n sof ms s, run g n sof (init g n) ms = Some s /\ pc s <> PDone /\
    forall m, task_move m = true -> m <> MInterrupt -> step g n sof s m = None.
Proof.
  exists [mkTask KTest [1; 2] [] []], 1, false, [MTake 0 Run; MDie 0].
  eexists. split; [vm_compute; reflexivity|]. split; [discriminate|].
  intros [t|t md|t r|f| |t]; simpl; intros H Hi; try discriminate; try reflexivity; congruence.
Qed.
Print Assumptions C01_worker_death_deadlocks_refuted.

(* non-vacuity: a concrete diamond graph is well formed, and a complete execution of it with 2 workers exists *)
Example C01_witness_graph :
  let g := [mkTask KSuiteBegin [5] [] []; mkTask KTest [5; 6] [0] []; mkTask KTest [5; 7] [0; 1] [];
            mkTask KSuiteEnd [5] [1; 2] []] in
  wf g (fun i => i) /\
  exists ms s, run g 2 false (init g 2) ms = Some s /\ finished g s = true.
Proof.
  split.
  - constructor; intros i d Hi Hd; do 4 (destruct i as [|i]; simpl in *; [intuition Lia.lia|]); Lia.lia.
  - exists [MTake 0 Run; MFinish 0 ResSuccess; MMain 0; MTake 1 Run; MFinish 1 (ResFailure (RTaskFailed 1)); MMain 1;
            MTake 2 (Skip (Some (RTaskFailed 1))); MFinish 2 (ResSkipped (Some (RTaskFailed 1))); MMain 2;
            MTake 3 (Skip (Some (RTaskFailed 1))); MFinish 3 (ResSkipped (Some (RTaskFailed 1))); MMain 3].
    eexists. split; vm_compute; reflexivity.
Qed.
