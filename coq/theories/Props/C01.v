(* C01 — Every scheduled test is accounted for exactly once and the run terminates.
   Statements only. Layer 1 (the dispatch loop of task.py, Model/Sched.v): for EVERY well-formed task graph, every number of
   worker threads n >= 1, every result the tasks may produce and every interleaving of main thread, workers and flag-raising
   user code. Proofs: Proofs/SchedP.v. *)
From Coq Require Import List Arith Bool.
Import ListNotations.
From LCC Require Import Base.Util Model.Proj Model.Sched Model.Graph Model.Fixture Model.Deps Proofs.SchedP Proofs.GraphP Proofs.DepsP Proofs.ProjectP
     Model.TaskSem Model.TaskSemEq Proofs.ProtocolP Proofs.AccountP.

(* no deadlock: in every reachable state in which no worker thread has been killed, as long as the main loop is not over
   some task-level move is enabled *)
Theorem C01_no_deadlock : forall g rk n sof s,
  wf g rk -> 1 <= n -> reachable g n sof s -> dead s = [] -> pc s <> PDone ->
  exists m s', task_move m = true /\ step g n sof s m = Some s'.
Proof. intros g rk n sof s W Hn R. apply (progress g rk n sof s W Hn). apply (reachable_Inv g n sof s Hn R). Qed.
Print Assumptions C01_no_deadlock.

(* termination: whatever the schedule, at most 3*|tasks|+2 task-level moves can ever be made (flag moves do not count:
   they are made by user code, which is assumed to terminate) *)
Theorem C01_terminates : forall g n sof ms s,
  1 <= n -> run g n sof (init g n) ms = Some s -> count_task_moves ms <= 3 * length g + 2.
Proof.
  intros g n sof ms s Hn H.
  pose proof (bounded_task_moves g n sof ms (init g n) s Hn (init_Inv g n Hn) H).
  pose proof (init_weight g n). Lia.lia.
Qed.
Print Assumptions C01_terminates.

(* every task is taken by a worker at most once, finishes at most once and is acknowledged by the main thread at most once,
   in every reachable state; and exactly once each when the run is over, and then no worker died *)
Theorem C01_each_task_at_most_once : forall g n sof ms s t,
  1 <= n -> run g n sof (init g n) ms = Some s ->
  count (is_take t) ms <= 1 /\ count (is_finish t) ms <= 1 /\ count (is_main t) ms <= 1.
Proof. exact at_most_once. Qed.
Print Assumptions C01_each_task_at_most_once.

Theorem C01_each_task_exactly_once : forall g n sof ms s t,
  1 <= n -> run g n sof (init g n) ms = Some s -> finished g s = true -> t < length g ->
  count (is_take t) ms = 1 /\ count (is_finish t) ms = 1 /\ count (is_main t) ms = 1 /\ dead s = [].
Proof. exact exactly_once_when_finished. Qed.
Print Assumptions C01_each_task_exactly_once.

(* the bookkeeping never loses or duplicates a task: remaining / pool queue / running / completion queue / completed / dead
   always partition the task set *)
Theorem C01_partition : forall g n sof s, 1 <= n -> reachable g n sof s ->
  Permutation.Permutation (everything s) (seq 0 (length g)) /\ length (running s) <= n.
Proof. intros g n sof s Hn R. pose proof (reachable_Inv g n sof s Hn R) as I. split; apply I. Qed.
Print Assumptions C01_partition.

(* the executable well-formedness check evaluated on the task graph of every co-simulated run (a topological order computed
   by [toposort]) is sound: a graph that passes it is well formed, so the theorems above apply to it *)
Theorem C01_wf_check_sound : forall g order, wf_b g order = true -> wf g (fun i => index_of i order).
Proof. exact wf_b_sound. Qed.
Print Assumptions C01_wf_check_sound.

(* ... and for graphs that come from projects no check is needed at all: the task graph runner.build_tasks builds
   (Model/Graph.v: both passes, every suite tree, every fixture schedule [si], with or without --force-disabled) is well
   formed for EVERY project whose depends_on relation is acyclic, i.e. ranked by some [tr] (what project validation
   establishes, C04_resolve_complete): every dependency is a task of the graph and the rank [rank_of g tr] decreases along
   every dependency.  (The certificate above stays in the correspondence: it is evaluated on the implementation's graph.) *)
Theorem C01_project_graph_wellformed : forall si force suites g (tr : path -> nat),
  build_tasks si force suites = Some g ->
  (forall p d, In d (deps_lookup (deps_table suites) p) -> tr d < tr p) ->
  wf g (rank_of g tr).
Proof. exact build_tasks_wf. Qed.
Print Assumptions C01_project_graph_wellformed.

(* hence: the run of any such project never deadlocks, whatever the thread count, the results and the interleaving *)
Theorem C01_no_deadlock_for_projects : forall si force suites g (tr : path -> nat) n sof s,
  build_tasks si force suites = Some g ->
  (forall p d, In d (deps_lookup (deps_table suites) p) -> tr d < tr p) ->
  1 <= n -> reachable g n sof s -> dead s = [] -> pc s <> PDone ->
  exists m s', task_move m = true /\ step g n sof s m = Some s'.
Proof.
  intros si force suites g tr n sof s Hg Htr Hn R. apply (progress g (rank_of g tr) n sof s); [|exact Hn|].
  - exact (build_tasks_wf si force suites g tr Hg Htr).
  - apply (reachable_Inv g n sof s Hn R).
Qed.
Print Assumptions C01_no_deadlock_for_projects.

(* ... and the acyclicity hypothesis is what project validation establishes: if the dependency resolution of
   suite/core.py (Model/Deps.v) accepts the scheduled suites (test paths unique, as the loader guarantees: C13), then
   build_tasks does return a graph (every depends_on target has its task), the graph is well formed, and hence the run
   never deadlocks whatever the thread count, the results and the interleaving; with C01_terminates and
   C01_each_task_exactly_once (which need no hypothesis on the graph) this is the property for every validated project *)
Theorem C01_validated_project_graph : forall ssuites asuites l si force,
  NoDup (test_paths ssuites) ->
  sched_consistent (find_test ssuites) (find_test asuites) ->
  resolve_tests_dependencies ssuites asuites = Ok l ->
  exists g rk, build_tasks si force ssuites = Some g /\ wf g rk.
Proof. exact validated_project_has_wellformed_graph. Qed.
Print Assumptions C01_validated_project_graph.

Theorem C01_no_deadlock_for_validated_projects : forall ssuites asuites l si force,
  NoDup (test_paths ssuites) ->
  sched_consistent (find_test ssuites) (find_test asuites) ->
  resolve_tests_dependencies ssuites asuites = Ok l ->
  exists g, build_tasks si force ssuites = Some g /\
    forall n sof s, 1 <= n -> reachable g n sof s -> dead s = [] -> pc s <> PDone ->
      exists m s', task_move m = true /\ step g n sof s m = Some s'.
Proof.
  intros ssuites asuites l si force Hu Hc Hr.
  destruct (validated_project_has_wellformed_graph ssuites asuites l si force Hu Hc Hr) as [g [rk [Hg W]]].
  exists g. split; [exact Hg|]. intros n sof s Hn R. apply (progress g rk n sof s W Hn). apply (reachable_Inv g n sof s Hn R).
Qed.
Print Assumptions C01_no_deadlock_for_validated_projects.

(* What one test task reports (layer 3, Model/TaskSem.v, tied per task to the real runner's trace): whatever its scripts do —
   logs, steps, threads, raises of every kind in body, hooks and fixtures — among the result-level events it puts on the
   queue ([rl] = everything but step / log events) there is exactly one of: test_disabled; test_skipped (with the reason
   shown); or test_start followed by test_end — all from its worker thread, and no thread it starts fires any result-level
   event ([kids_quiet]).  (Unless a BaseException escaped: then test_start only, and the task ends with an exception result
   that makes the whole run raise.)  With "every task taken exactly once" above, every scheduled test is reported exactly
   once; the writer turns each of these events into exactly one test result (Model/Writer.v add_test; C18, C06 WriterLevel). *)
Theorem C01_test_task_accounts_for_its_test : forall pr reg force t md setup_md o,
  task_sem pr reg force t md setup_md = Some o -> t_kind t = KTest ->
  kids_quiet (to_children o) /\
  (to_res o <> TkDied ->
     rl (to_main o) = [RTestDisabled (t_path t)] \/
     (exists r, md = Skip r /\ rl (to_main o) = [RTestSkipped (t_path t) (shown_reason r)]) \/
     (md = Run /\ rl (to_main o) = [RTestStart (t_path t); RTestEnd (t_path t)])).
Proof. exact test_task_accounts. Qed.
Print Assumptions C01_test_task_accounts_for_its_test.

(* F15 (why run_task must catch BaseException; fixed in /repo): if a worker thread were killed by a BaseException raised
   by user code before the completion put (move MDie), the run would never end:
   a reachable state with a main loop that is not over and no enabled task move (other than the user pressing Ctrl-C,
   after which the main thread drains the completion queue forever) *)
Theorem C01_worker_death_deadlocks_refuted :
  exists g n sof ms s, run g n sof (init g n) ms = Some s /\ pc s <> PDone /\
    forall m, task_move m = true -> m <> MInterrupt -> step g n sof s m = None.
Proof.
  exists [mkTask KTest [1; 2] [] []], 1, false, [MTake 0 Run; MDie 0].
  eexists. split; [vm_compute; reflexivity|]. split; [discriminate|].
  intros [t|t md|t r|f| |t]; simpl; intros H Hi; try discriminate; try reflexivity; congruence.
Qed.
Print Assumptions C01_worker_death_deadlocks_refuted.

(* non-vacuity: a concrete diamond graph is well formed, and a complete execution of it with 2 workers exists *)
Example C01_witness_graph :
  let g := [mkTask KSuiteBegin [5] [] []; mkTask KTest [5; 6] [0] []; mkTask KTest [5; 7] [0; 1] [];
            mkTask KSuiteEnd [5] [1; 2] []] in
  wf g (fun i => i) /\
  exists ms s, run g 2 false (init g 2) ms = Some s /\ finished g s = true.
Proof.
  split.
  - constructor; intros i d Hi Hd; do 4 (destruct i as [|i]; simpl in *; [intuition Lia.lia|]); Lia.lia.
  - exists [MTake 0 Run; MFinish 0 ResSuccess; MMain 0; MTake 1 Run; MFinish 1 (ResFailure (RTaskFailed 1)); MMain 1;
            MTake 2 (Skip (Some (RTaskFailed 1))); MFinish 2 (ResSkipped (Some (RTaskFailed 1))); MMain 2;
            MTake 3 (Skip (Some (RTaskFailed 1))); MFinish 3 (ResSkipped (Some (RTaskFailed 1))); MMain 3].
    eexists. split; vm_compute; reflexivity.
Qed.

(* ... and so is a graph in which a task lists ONE dependency TWICE (depends_on naming a test by its path and by a predicate
   that matches it: resolve_tests_dependencies keeps both edges): nothing above asks for duplicate-free lists, the task
   becomes runnable when that dependency and the other one have completed, and the run ends *)
Example C01_witness_duplicate_dependency :
  let g := [mkTask KTest [5; 6] [] []; mkTask KTest [5; 7] [] []; mkTask KTest [5; 8] [0; 0; 1] []] in
  wf g (fun i => i) /\
  exists ms s, run g 2 false (init g 2) ms = Some s /\ finished g s = true.
Proof.
  split.
  - constructor; intros i d Hi Hd; do 3 (destruct i as [|i]; simpl in *; [intuition Lia.lia|]); Lia.lia.
  - exists [MTake 0 Run; MTake 1 Run; MFinish 0 ResSuccess; MMain 0; MFinish 1 ResSuccess; MMain 1; MTake 2 Run;
            MFinish 2 ResSuccess; MMain 2].
    eexists. split; vm_compute; reflexivity.
Qed.

(* non-vacuity of the project-level theorems: a project with a cross-suite diamond of depends_on edges has a graph and
   its depends_on relation is ranked *)
Example C01_witness_project :
  let hk := mkHooks None None None None in
  let s1 := Suite 5 false hk [] [mkTest 7 false [] [] [] []; mkTest 8 false [[5; 7]] [] [] []] [] in
  let s2 := Suite 6 false hk [] [mkTest 9 false [[5; 7]; [5; 8]] [] [] []] [] in
  let tr := fun p : path => match p with [5; 7] => 0 | [5; 8] => 1 | [6; 9] => 2 | _ => 0 end in
  (exists g, build_tasks (mkSinfo false (fun _ _ => false)) false [s1; s2] = Some g) /\
  (forall p d, In d (deps_lookup (deps_table [s1; s2]) p) -> tr d < tr p).
Proof.
  split; [eexists; vm_compute; reflexivity|].
  apply ranked_b_sound. vm_compute. reflexivity.
Qed.

(* ... and that project passes the dependency resolution with unique test paths: the hypotheses of the
   validated-project theorems are satisfiable *)
Example C01_witness_validated_project :
  let hk := mkHooks None None None None in
  let s1 := Suite 5 false hk [] [mkTest 7 false [] [] [] []; mkTest 8 false [[5; 7]] [] [] []] [] in
  let s2 := Suite 6 false hk [] [mkTest 9 false [[5; 7]; [5; 8]] [] [] []] [] in
  NoDup (test_paths [s1; s2]) /\ sched_consistent (find_test [s1; s2]) (find_test [s1; s2]) /\
  exists l, resolve_tests_dependencies [s1; s2] [s1; s2] = Ok l.
Proof.
  split; [|split].
  - vm_compute. repeat constructor; simpl; intuition discriminate.
  - intros p t H. exists t. split; [exact H|reflexivity].
  - eexists. vm_compute. reflexivity.
Qed.
