(* C04 — Test dependencies: ordering, skip propagation, early rejection of bad graphs.
   Statements only. Ordering and skip propagation: the dispatch loop (Model/Sched.v) over the edges that build_tasks adds
   for depends_on (Model/Graph.v), for every graph, thread count and interleaving (Proofs/SchedP.v).
   Rejection of bad graphs: Model/Deps.v (_resolve_test_dependencies), Proofs/DepsP.v. *)
From Coq Require Import List Arith Bool Relations.
Import ListNotations.
From LCC Require Import Base.Util Model.Proj Model.Sched Model.Graph Model.Fixture Model.Deps Proofs.SchedP Proofs.DepsP
     Proofs.GraphP Proofs.ShapeP Model.DepsPred Proofs.DepsPredP.

(* A test never starts before every test it depends on, directly or transitively, and its suite's setup task have
   finished (and been acknowledged by the main thread). *)
Theorem C04_order : forall g n sof t e, dep_path g t e ->
  forall ms1 md ms2 s, 1 <= n ->
  run g n sof (init g n) (ms1 ++ MTake t md :: ms2) = Some s ->
  occurs (is_take e) ms1 /\ occurs (is_finish e) ms1 /\ occurs (is_main e) ms1.
Proof. exact take_after_transitive_dependencies. Qed.
Print Assumptions C04_order.

(* it is executed only if every direct dependency ended with Success (a disabled dependency ends with Success) ... *)
Theorem C04_executed_only_if : forall g sof s t,
  decide g sof s t JHandle = Run -> forall d, In d (t_succ (get_task g t)) -> result_of s d = Some ResSuccess.
Proof. exact run_only_if_dependencies_succeeded. Qed.
Print Assumptions C04_executed_only_if.

(* ... otherwise it is skipped with the reason of the first dependency that did not succeed: the failure text of a failed
   test, or the reason a skipped dependency was itself skipped with — so the reason propagates to the dependents of the
   dependents *)
Theorem C04_skipped_otherwise : forall g sof s t deps1 d deps2 r,
  t_succ (get_task g t) = deps1 ++ d :: deps2 ->
  (forall x, In x deps1 -> result_of s x = Some ResSuccess) -> result_of s d = Some r -> r <> ResSuccess ->
  decide g sof s t JHandle = Skip (skip_reason_of r).
Proof. exact skipped_if_a_dependency_did_not_succeed. Qed.
Print Assumptions C04_skipped_otherwise.

(* The edges are there for EVERY project (both passes of runner.build_tasks, Model/Graph.v): the task of a test that declares
   depends_on d has the task of the test at path d among its on-success dependencies — so C04_order, C04_executed_only_if and
   C04_skipped_otherwise apply to every declared dependency of every project. *)
Theorem C04_edges_every_project : forall si force suites g i t,
  build_tasks si force suites = Some g ->
  nth_error (build_tasks_structural si force suites) i = Some t -> t_kind t = KTest ->
  forall d, In d (deps_lookup (deps_table suites) (t_path t)) ->
    exists j td, lookup_test_task (build_tasks_structural si force suites) d 0 = Some j /\
                 In j (t_succ (get_task g i)) /\
                 nth_error (build_tasks_structural si force suites) j = Some td /\ t_kind td = KTest /\ t_path td = d /\
                 t_kind (get_task g j) = KTest /\ t_path (get_task g j) = d.
Proof. exact depends_on_edges. Qed.
Print Assumptions C04_edges_every_project.

(* Bad graphs are rejected when the project is prepared, before any task exists: resolution fails with a ValidationError
   naming a real defect (unknown path, cycle of any length, dependency not scheduled) ... *)
Theorem C04_resolve_sound : forall ssuites asuites e,
  sched_consistent (find_test ssuites) (find_test asuites) ->
  resolve_tests_dependencies ssuites asuites = Err e ->
  exists r, e = ValidationError r /\ DepInvalid (find_test ssuites) (find_test asuites) r.
Proof. exact resolve_tests_dependencies_sound. Qed.
Print Assumptions C04_resolve_sound.

(* ... and a graph that is accepted has none of these defects *)
Theorem C04_resolve_complete : forall ssuites asuites l,
  sched_consistent (find_test ssuites) (find_test asuites) ->
  resolve_tests_dependencies ssuites asuites = Ok l ->
  forall r, ~ DepInvalid (find_test ssuites) (find_test asuites) r.
Proof. exact resolve_tests_dependencies_complete. Qed.
Print Assumptions C04_resolve_complete.

(* the recursion terminates on every input, cyclic or not *)
Theorem C04_resolve_terminates : forall (sched all : dict test) (p : path) (deps : list path),
  resolve_test_dependencies (resolve_fuel all) sched all p deps [] <> Err OutOfFuel.
Proof. exact resolve_root_never_out_of_fuel. Qed.
Print Assumptions C04_resolve_terminates.

(* non-vacuity: a diamond across two suites; the extra edges are the on-success dependencies of the test tasks *)
Example C04_witness_graph :
  let hk := mkHooks None None None None in
  let s1 := Suite 5 false hk [] [mkTest 7 false [] [] [] []; mkTest 8 false [[5; 7]] [] [] []] [] in
  let s2 := Suite 6 false hk [] [mkTest 9 false [[5; 7]; [5; 8]] [] [] []] [] in
  build_tasks (mkSinfo false (fun _ _ => false)) false [s1; s2] =
  Some [mkTask KSuiteBegin [5] [] []; mkTask KTest [5; 7] [0] []; mkTask KTest [5; 8] [0; 1] []; mkTask KSuiteEnd [5] [0; 1; 2] [];
        mkTask KSuiteBegin [6] [] []; mkTask KTest [6; 9] [4; 1; 2] []; mkTask KSuiteEnd [6] [4; 5] []].
Proof. vm_compute. reflexivity. Qed.

(* ---- dependencies declared by predicates (lcc.depends_on(lambda test: ...)): suite/core.py:_normalize_test_dependencies,
   Model/DepsPred.v. A predicate is modelled by its extension [ext] (the paths it holds for: it can only be observed through
   the tests it is applied to); [keys] are the keys of all_tests in dict order. The real generator is run on random declared
   dependencies and compared with [walk] on every run; the projects of the co-simulation declare a third of their
   dependencies by predicates, some designating several tests and the depending test itself. ---- *)

(* a predicate designates exactly the tests of the project, other than the depending test, that it holds for ... *)
Theorem C04_predicate_designates : forall self keys ext q,
  In q (pred_yields self keys ext) <-> In q keys /\ q <> self /\ In q ext.
Proof. exact pred_yields_iff. Qed.
Print Assumptions C04_predicate_designates.

(* ... in project order, each once, whatever the order in which the predicate would enumerate them *)
Theorem C04_predicate_project_order : forall self keys ext,
  subseq (pred_yields self keys ext) keys /\ (NoDup keys -> NoDup (pred_yields self keys ext)) /\
  (forall ext', (forall q, In q ext <-> In q ext') -> pred_yields self keys ext = pred_yields self keys ext').
Proof.
  intros self keys ext; split; [apply pred_yields_project_order|split].
  - apply pred_yields_nodup.
  - apply pred_yields_ext_order_irrelevant.
Qed.
Print Assumptions C04_predicate_project_order.

(* the path form the rest of the model works with (tt_deps): a test depends on itself only if it names its own path — a
   predicate true of the depending test never does that (F26) — and an unknown dependency can only come from a path *)
Theorem C04_predicate_never_self_never_unknown : forall self keys decl,
  (In self (expand self keys decl) <-> In (DPath self) decl) /\
  (forall q, In q (expand self keys decl) -> ~ In q keys -> In (DPath q) decl).
Proof. intros self keys decl; split; [apply self_dependency_only_by_path|apply expand_known]. Qed.
Print Assumptions C04_predicate_never_self_never_unknown.

(* the generator: it yields the path form of the declared dependencies, all of it when every declared path is a test of the
   project, and otherwise what precedes the first unknown path, then raises (what was yielded has been processed already) *)
Theorem C04_normalize_generator : forall self keys decl,
  (snd (walk self keys decl) = false ->
     fst (walk self keys decl) = expand self keys decl /\ (forall p, In (DPath p) decl -> In p keys)) /\
  (snd (walk self keys decl) = true ->
     exists d1 p d2, decl = d1 ++ DPath p :: d2 /\ ~ In p keys /\
       fst (walk self keys decl) = expand self keys d1 /\ (forall p', In (DPath p') d1 -> In p' keys)).
Proof. intros self keys decl; split; [apply walk_ok|apply walk_error]. Qed.
Print Assumptions C04_normalize_generator.

(* what a predicate designates is always found by the resolution (Model/Deps.v looks dependencies up in all_tests) *)
Theorem C04_predicate_dependencies_found : forall (all : dict test) self decl q,
  (forall p, In (DPath p) decl -> In p (map fst all)) ->
  In q (expand self (map fst all) decl) -> dict_find all q <> None.
Proof. exact expanded_dependencies_are_found. Qed.
Print Assumptions C04_predicate_dependencies_found.

(* THE COMPOSITION with the resolution (Model/Deps.v) for whole projects: DepsPred.expand_project puts the declared dependencies
   of every test in path form. If preparing such a project fails with "Cannot find dependency test", some test NAMES, by its
   path, a test that does not exist: predicates are never the cause, whatever they hold for ... *)
Theorem C04_unknown_dependency_comes_from_a_path : forall decl suites e,
  resolve_tests_dependencies (expand_project decl suites) (expand_project decl suites) = Err e ->
  e = ValidationError RDepUnknown ->
  exists a d, find_test suites a <> None /\ In (DPath d) (decl a) /\ find_test suites d = None.
Proof. exact unknown_dependency_comes_from_a_path. Qed.
Print Assumptions C04_unknown_dependency_comes_from_a_path.

(* ... and a one-hop cycle can only come from a test naming its own path; the edges of the expanded project are exactly the
   path forms of the declarations *)
Theorem C04_self_edge_comes_from_a_path : forall decl suites a,
  DepEdge (find_test (expand_project decl suites)) a a -> In (DPath a) (decl a).
Proof. exact self_edge_comes_from_a_path. Qed.
Print Assumptions C04_self_edge_comes_from_a_path.
Theorem C04_edges_of_a_declared_project : forall decl suites a d,
  DepEdge (find_test (expand_project decl suites)) a d <->
  find_test suites a <> None /\ In d (expand a (keys_of suites) (decl a)).
Proof. exact dep_edge_expand. Qed.
Print Assumptions C04_edges_of_a_declared_project.

(* sensitivity: without the self-exclusion a predicate true of the depending test makes the test its own dependency *)
Theorem C04_predicate_without_self_exclusion_refuted :
  In [6; 9] (pred_yields_no_self_exclusion [[5; 7]; [6; 9]] [[6; 9]; [5; 7]]) /\
  ~ In [6; 9] (pred_yields [6; 9] [[5; 7]; [6; 9]] [[6; 9]; [5; 7]]).
Proof. exact no_self_exclusion_refuted. Qed.
Print Assumptions C04_predicate_without_self_exclusion_refuted.
Example C04_predicate_witness :
  let keys := [[5; 7]; [5; 8]; [6; 9]; [6; 10]] in
  expand [6; 9] keys [DPred [[6; 9]; [6; 10]; [5; 7]; [4; 4]]; DPath [5; 8]] = [[5; 7]; [6; 10]; [5; 8]] /\
  walk [6; 9] keys [DPred [[6; 10]; [5; 7]]; DPath [1; 1]; DPath [5; 8]] = ([[5; 7]; [6; 10]], true).
Proof. exact pred_witness. Qed.
