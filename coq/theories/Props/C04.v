(* C04 — Test dependencies: ordering, skip propagation, early rejection of bad graphs.
   Statements only. Ordering and skip propagation: the dispatch loop (Model/Sched.v) over the edges that build_tasks adds
   for depends_on (Model/Graph.v), for every graph, thread count and interleaving (Proofs/SchedP.v).
   Rejection of bad graphs: Model/Deps.v (_resolve_test_dependencies), Proofs/DepsP.v. *)
From Coq Require Import List Arith Bool Relations.
Import ListNotations.
From LCC Require Import Base.Util Model.Proj Model.Sched Model.Graph Model.Fixture Model.Deps Proofs.SchedP Proofs.DepsP
     Proofs.GraphP Proofs.ShapeP.

(* A test never starts before every test it depends on, directly or transitively, and its suite's setup task have
   finished (and been acknowledged by the main thread). *)
Theorem C04_order : forall g n sof t e, dep_path g t e ->
  forall ms1 md ms2 s, 1 <= n ->
  run g n sof (init g n) (ms1 ++ MTake t md :: ms2) = Some s ->
  occurs (is_take e) ms1 /\ occurs (is_finish e) ms1 /\ occurs (is_main e) ms1.
Proof. exact take_after_transitive_dependencies. Qed.
Print Assumptions C04_order.

(* it is executed only if every direct dependency ended with Success (a disabled dependency ends with Success) ... *)
Theorem C04_executed_only_if : forall g sof s t,
  decide g sof s t JHandle = Run -> forall d, In d (t_succ (get_task g t)) -> result_of s d = Some ResSuccess.
Proof. exact run_only_if_dependencies_succeeded. Qed.
Print Assumptions C04_executed_only_if.

(* ... otherwise it is skipped with the reason of the first dependency that did not succeed: the failure text of a failed
   test, or the reason a skipped dependency was itself skipped with — so the reason propagates to the dependents of the
   dependents *)
Theorem C04_skipped_otherwise : forall g sof s t deps1 d deps2 r,
  t_succ (get_task g t) = deps1 ++ d :: deps2 ->
  (forall x, In x deps1 -> result_of s x = Some ResSuccess) -> result_of s d = Some r -> r <> ResSuccess ->
  decide g sof s t JHandle = Skip (skip_reason_of r).
Proof. exact skipped_if_a_dependency_did_not_succeed. Qed.
Print Assumptions C04_skipped_otherwise.

(* The edges are there for EVERY project (both passes of runner.build_tasks, Model/Graph.v): the task of a test that declares
   depends_on d has the task of the test at path d among its on-success dependencies — so C04_order, C04_executed_only_if and
   C04_skipped_otherwise apply to every declared dependency of every project. *)
Theorem C04_edges_every_project : forall si force suites g i t,
  build_tasks si force suites = Some g ->
  nth_error (build_tasks_structural si force suites) i = Some t -> t_kind t = KTest ->
  forall d, In d (deps_lookup (deps_table suites) (t_path t)) ->
    exists j td, lookup_test_task (build_tasks_structural si force suites) d 0 = Some j /\
                 In j (t_succ (get_task g i)) /\
                 nth_error (build_tasks_structural si force suites) j = Some td /\ t_kind td = KTest /\ t_path td = d /\
                 t_kind (get_task g j) = KTest /\ t_path (get_task g j) = d.
Proof. exact depends_on_edges. Qed.
Print Assumptions C04_edges_every_project.

(* Bad graphs are rejected when the project is prepared, before any task exists: resolution fails with a ValidationError
   naming a real defect (unknown path, cycle of any length, dependency not scheduled) ... *)
Theorem C04_resolve_sound : forall ssuites asuites e,
  sched_consistent (find_test ssuites) (find_test asuites) ->
  resolve_tests_dependencies ssuites asuites = Err e ->
  exists r, e = ValidationError r /\ DepInvalid (find_test ssuites) (find_test asuites) r.
Proof. exact resolve_tests_dependencies_sound. Qed.
Print Assumptions C04_resolve_sound.

(* ... and a graph that is accepted has none of these defects *)
Theorem C04_resolve_complete : forall ssuites asuites l,
  sched_consistent (find_test ssuites) (find_test asuites) ->
  resolve_tests_dependencies ssuites asuites = Ok l ->
  forall r, ~ DepInvalid (find_test ssuites) (find_test asuites) r.
Proof. exact resolve_tests_dependencies_complete. Qed.
Print Assumptions C04_resolve_complete.

(* the recursion terminates on every input, cyclic or not *)
Theorem C04_resolve_terminates : forall (sched all : dict test) (p : path) (deps : list path),
  resolve_test_dependencies (resolve_fuel all) sched all p deps [] <> Err OutOfFuel.
Proof. exact resolve_root_never_out_of_fuel. Qed.
Print Assumptions C04_resolve_terminates.

(* non-vacuity: a diamond across two suites; the extra edges are the on-success dependencies of the test tasks *)
Example C04_witness_graph :
  let hk := mkHooks None None None None in
  let s1 := Suite 5 false hk [] [mkTest 7 false [] [] [] []; mkTest 8 false [[5; 7]] [] [] []] [] in
  let s2 := Suite 6 false hk [] [mkTest 9 false [[5; 7]; [5; 8]] [] [] []] [] in
  build_tasks (mkSinfo false (fun _ _ => false)) false [s1; s2] =
  Some [mkTask KSuiteBegin [5] [] []; mkTask KTest [5; 7] [0] []; mkTask KTest [5; 8] [0; 1] []; mkTask KSuiteEnd [5] [0; 1; 2] [];
        mkTask KSuiteBegin [6] [] []; mkTask KTest [6; 9] [4; 1; 2] []; mkTask KSuiteEnd [6] [4; 5] []].
Proof. vm_compute. reflexivity. Qed.
