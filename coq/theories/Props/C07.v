(* C07 — Reporting backends receive a well-formed event stream.
   Statements only. Per thread: Model/TaskSem.v + Proofs/ProtocolP.v (hold / flush / discard protocol of session.py).
   Across tasks: Model/Sched.v + Proofs/SchedP.v (the event queue is FIFO with a single consumer, so the order in which
   events are put on the queue is the order every backend sees). The composition of the two (the merged stream satisfies the
   grammar of DESIGN.md A.1) is evaluated on the recorded stream of every co-simulated run by the executable checker
   Model/StreamOk.v inside Coq; it is not stated as one theorem: C07 is partial in that sense. *)
From Coq Require Import List Arith Bool.
Import ListNotations.
From LCC Require Import Base.Util Model.Proj Model.Sched Model.Fixture Model.TaskSem Model.TaskSemEq
     Proofs.ProtocolP Proofs.SchedP Model.Graph Proofs.GraphP Proofs.ShapeP Proofs.AccountP.

(* For each executed test a start and an end enclosing properly opened and closed steps, every log inside the step open for
   the emitting thread; a single event for a skipped or disabled test; never a step start without its end when the thread
   ends; empty steps and empty setup phases are elided start and end together: every thread of every task. *)
Theorem C07_protocol : forall pr reg force t md setup_md o,
  task_sem pr reg force t md setup_md = Some o -> threads_ok (task_loc t) o.
Proof. exact task_sem_threads_ok. Qed.
Print Assumptions C07_protocol.

(* every script keeps its thread inside the grammar, whatever it does (the induction behind C07_protocol) *)
Theorem C07_scripts_keep_the_protocol : forall o tp env sc x l,
  good l tp (sr_state x) -> has_step (sr_state x) -> children_ok l (sr_children x) ->
  good l tp (sr_state (interp o tp env sc x)) /\ has_step (sr_state (interp o tp env sc x)) /\
  children_ok l (sr_children (interp o tp env sc x)).
Proof. exact interp_good. Qed.
Print Assumptions C07_scripts_keep_the_protocol.

(* "never a start without its end ... empty setup phases elided consistently, start and end together", for the result-level
   events ([rl] = everything but step and log events) of every task of every project, whatever its scripts do and whatever
   was decided for it:
   - a test task fires exactly one of test_disabled, test_skipped, or test_start followed by test_end (from its worker thread;
     no thread it starts fires a result-level event);
   - a session / suite setup or teardown task fires either nothing at all (no event of any kind, no thread started: the held
     start event is dropped together with the end event) or its start event first and its end event last.
   (Unless a BaseException escaped from user code: the task then ends with an exception result and the whole run raises.) *)
Theorem C07_test_brackets : forall pr reg force t md setup_md o,
  task_sem pr reg force t md setup_md = Some o -> t_kind t = KTest ->
  kids_quiet (to_children o) /\
  (to_res o <> TkDied ->
     rl (to_main o) = [RTestDisabled (t_path t)] \/
     (exists r, md = Skip r /\ rl (to_main o) = [RTestSkipped (t_path t) (shown_reason r)]) \/
     (md = Run /\ rl (to_main o) = [RTestStart (t_path t); RTestEnd (t_path t)])).
Proof. exact test_task_accounts. Qed.
Print Assumptions C07_test_brackets.

Theorem C07_phase_brackets : forall pr reg force t md setup_md o start end_,
  task_sem pr reg force t md setup_md = Some o -> phase_events t = Some (start, end_) -> to_res o <> TkDied ->
  (events_of (to_main o) = [] /\ to_children o = []) \/ (rl (to_main o) = [start; end_] /\ kids_quiet (to_children o)).
Proof. exact task_phase_brackets. Qed.
Print Assumptions C07_phase_brackets.

(* Each suite's start before, and its end after, every event of its tests, setup, teardown and sub-suites: the events of a
   task are emitted between its take and its finish, and a task is only taken after everything it transitively depends on
   has finished (suite Begin is a transitive dependency of every task of the suite and of its sub-suites; suite End depends
   on Begin, tests, teardown and sub-suite Ends — the edges are those of runner.build_tasks, compared on every run). *)
Theorem C07_suite_brackets : forall g n sof t e, dep_path g t e ->
  forall ms1 md ms2 s, 1 <= n ->
  run g n sof (init g n) (ms1 ++ MTake t md :: ms2) = Some s ->
  occurs (is_take e) ms1 /\ occurs (is_finish e) ms1 /\ occurs (is_main e) ms1.
Proof. exact take_after_transitive_dependencies. Qed.
Print Assumptions C07_suite_brackets.

(* ... and that is so for EVERY project (every suite tree, fixture schedule, force_disabled, depends_on edges): each nested
   suite s' has its block of tasks [T] in the graph (Begin first, End last; in between its setup, tests, teardown and the
   blocks of its sub-suites, recursively: Graph.suite_tasks); for every thread count, results and interleaving no task of
   the block is taken before the suite's Begin task (which emits suite_start) has finished, and the End task (which emits
   suite_end) is not taken before every other task of the block has finished. *)
Theorem C07_suite_brackets_every_project : forall si force suites g s',
  build_tasks si force suites = Some g -> In s' (all_subsuites suites) ->
  exists pre post ss pb prefix inh,
    let T := suite_tasks si force ss pb prefix inh (length pre) s' in
    let b := length pre in let e := length pre + length T - 1 in
    build_tasks_structural si force suites = pre ++ T ++ post /\
    t_kind (get_task g b) = KSuiteBegin /\ t_kind (get_task g e) = KSuiteEnd /\
    forall n sof ms1 md ms2 st, 1 <= n ->
      (forall i, b < i <= e -> run g n sof (init g n) (ms1 ++ MTake i md :: ms2) = Some st ->
         occurs (is_take b) ms1 /\ occurs (is_finish b) ms1 /\ occurs (is_main b) ms1) /\
      (forall i, b <= i < e -> run g n sof (init g n) (ms1 ++ MTake e md :: ms2) = Some st ->
         occurs (is_take i) ms1 /\ occurs (is_finish i) ms1 /\ occurs (is_main i) ms1).
Proof. exact suite_brackets_run. Qed.
Print Assumptions C07_suite_brackets_every_project.

(* With one worker thread events of different tests and phases never interleave: while a task is running no other task can
   be taken. *)
Theorem C07_sequential : forall g sof s t md, reachable g 1 sof s -> In (t, md) (running s) ->
  forall t' md', step g 1 sof s (MTake t' md') = None.
Proof. exact single_worker_no_overlap. Qed.
Print Assumptions C07_sequential.

(* non-vacuity: a test whose first step stays empty (elided) and whose second step holds a log from a child thread *)
Example C07_witness :
  let hk := mkHooks None None None None in
  let t := mkTest 7 false [] [] [] [ASetStep 1; ASetStep 2; ASpawn [ALog 1 3]; AJoin] in
  events_of (to_main (test_run (fun _ => IAbsent) [5; 7] [5] t hk [])) = [RTestStart [5; 7]; RTestEnd [5; 7]] /\
  map (fun c => events_of (snd c)) (to_children (test_run (fun _ => IAbsent) [5; 7] [5] t hk [])) =
    [[RStepStart (LTest [5; 7]) (Some (SdUser (OBody [5; 7]) [] 2)) [0];
      RLog (LTest [5; 7]) (Some (SdUser (OBody [5; 7]) [] 2)) [0] 1 (MUser (OBody [5; 7]) [0] 3);
      RStepEnd (LTest [5; 7]) (Some (SdUser (OBody [5; 7]) [] 2)) [0]]].
Proof. split; vm_compute; reflexivity. Qed.
