(* C05 — placeholder statement until DeterminismP.v is written (replaced later in this session) *)
From Coq Require Import List Arith Bool.
From LCC Require Import Model.Sched Proofs.SchedP.
Theorem C05_dependents_see_results : forall g sof s t,
  decide g sof s t JHandle = Run -> forall d, In d (t_succ (get_task g t)) -> result_of s d = Some ResSuccess.
Proof. exact run_only_if_dependencies_succeeded. Qed.
Print Assumptions C05_dependents_see_results.
