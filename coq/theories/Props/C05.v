(* C05 — The report does not depend on the schedule: N threads equals one thread.
   Statements only. Proofs/DeterminismP.v over the dispatch-loop model (Model/Sched.v); Model/TaskSem.v for the per-task
   semantics. Fragment of the property: no interrupt, no killed worker, no AbortSuite / AbortAllTests / failing backend
   (the only context flag raised is "something failed") and --stop-on-failure off.

   What is proved: the decision (run / skip with its reason) and the result of EVERY task are the same in all runs of a
   project, for all thread counts and all interleavings, provided the result a task ends with is a function [sem] of the
   task and of the decision — which is the shape of Model/TaskSem.task_sem (it takes no schedule) and is checked against the
   real runner for every task of every co-simulated run. Since task_sem also gives the events of the task, every task puts
   the same events on the queue in all runs.
   What is NOT proved (partial): that the report writer turns every dependency-respecting interleaving of those per-task
   event lists into the same rank-sorted report; the check compares the N-thread and 1-thread reports on every run. *)
From Coq Require Import List Arith Bool.
Import ListNotations.
From LCC Require Import Base.Util Model.Proj Model.Sched Model.Fixture Model.TaskSem Proofs.SchedP Proofs.DeterminismP.

Theorem C05_results_schedule_independent : forall g rk (W : wf g rk) (sem : nat -> mode -> tres) n1 n2 ms1 ms2 s1 s2,
  1 <= n1 -> 1 <= n2 -> quiet ms1 -> quiet ms2 ->
  run g n1 false (init g n1) ms1 = Some s1 -> consistent_from g sem n1 (init g n1) ms1 ->
  run g n2 false (init g n2) ms2 = Some s2 -> consistent_from g sem n2 (init g n2) ms2 ->
  forall t r1 r2, t < length g -> result_of s1 t = Some r1 -> result_of s2 t = Some r2 -> r1 = r2.
Proof. intros g rk W sem. exact (results_schedule_independent g rk W sem). Qed.
Print Assumptions C05_results_schedule_independent.

Theorem C05_decisions_schedule_independent : forall g rk (W : wf g rk) (sem : nat -> mode -> tres) n1 n2 ms1 ms2 s1 s2,
  1 <= n1 -> 1 <= n2 -> quiet ms1 -> quiet ms2 ->
  run g n1 false (init g n1) ms1 = Some s1 -> consistent_from g sem n1 (init g n1) ms1 ->
  run g n2 false (init g n2) ms2 = Some s2 -> consistent_from g sem n2 (init g n2) ms2 ->
  forall t md1 md2, t < length g -> In (t, md1) (running s1) -> In (t, md2) (running s2) -> md1 = md2.
Proof. intros g rk W sem. exact (decisions_schedule_independent g rk W sem). Qed.
Print Assumptions C05_decisions_schedule_independent.

(* the canonical decision and result of a task exist at most once: they are determined along the dependency graph *)
Theorem C05_canonical_unique : forall g rk (W : wf g rk) (sem : nat -> mode -> tres) k t, rk t < k -> t < length g ->
  forall md r md' r', canon g sem t md r -> canon g sem t md' r' -> md = md' /\ r = r'.
Proof. intros g rk W sem. exact (canon_unique g rk W sem). Qed.
Print Assumptions C05_canonical_unique.

(* non-vacuity: two different interleavings of a three-task graph with different thread counts, same results *)
Example C05_witness :
  let g := [mkTask KSuiteBegin [5] [] []; mkTask KTest [5; 6] [0] []; mkTask KTest [5; 7] [0; 1] []] in
  let ms1 := [MTake 0 Run; MFinish 0 ResSuccess; MMain 0; MTake 1 Run; MFinish 1 (ResFailure (RTaskFailed 1)); MMain 1;
              MTake 2 (Skip (Some (RTaskFailed 1))); MFinish 2 (ResSkipped (Some (RTaskFailed 1)))] in
  let ms2 := [MTake 0 Run; MFinish 0 ResSuccess; MMain 0; MTake 1 Run; MFlag FFailure; MFinish 1 (ResFailure (RTaskFailed 1));
              MMain 1; MTake 2 (Skip (Some (RTaskFailed 1))); MFinish 2 (ResSkipped (Some (RTaskFailed 1)))] in
  (exists s1, run g 1 false (init g 1) ms1 = Some s1 /\ result_of s1 2 = Some (ResSkipped (Some (RTaskFailed 1)))) /\
  (exists s2, run g 3 false (init g 3) ms2 = Some s2 /\ result_of s2 2 = Some (ResSkipped (Some (RTaskFailed 1)))) /\
  quiet ms1 /\ quiet ms2.
Proof. repeat split; try (eexists; split; vm_compute; reflexivity); vm_compute; reflexivity. Qed.
