(* C05 — The report does not depend on the schedule: N threads equals one thread.
   Statements only. Proofs/DeterminismP.v over the dispatch-loop model (Model/Sched.v); Model/TaskSem.v for the per-task
   semantics. Fragment of the property: no interrupt, no killed worker, no AbortSuite / AbortAllTests / failing backend
   (the only context flag raised is "something failed") and --stop-on-failure off.

   What is proved: the decision (run / skip with its reason) and the result of EVERY task are the same in all runs of a
   project, for all thread counts and all interleavings, provided the result a task ends with is a function [sem] of the
   task and of the decision — which is the shape of Model/TaskSem.task_sem (it takes no schedule) and is checked against the
   real runner for every task of every co-simulated run. Since task_sem also gives the events of the task, every task puts
   the same events on the queue in all runs.
   The writer half (module WriterLevel below, Proofs/WriterOrderP.v): the report is invariant under swapping adjacent
   independent events and under renaming / merging of thread identifiers.
   The linearization theorem (Proofs/LinearizeP.v) turns "invariant under swaps" into a statement about two runs: two
   streams with the same events that order every pair of DEPENDENT events the same way give the same report — in
   particular when every task emits its events in the same order in both runs (task half: the events of a task do not
   depend on the schedule), a task's events come after those of the tasks it depends on (C07_suite_brackets: a task is only
   taken after its transitive dependencies have finished) and dependent events come from the same task or from tasks ordered
   by the graph (coverage, an executable check).
   What is NOT proved (partial): the coverage hypothesis for the graphs of runner.build_tasks and the identification of the
   model's per-task event lists with the writer's event type; the check compares the N-thread and 1-thread reports on
   every run. *)
From Coq Require Import List Arith Bool ZArith.
Import ListNotations.
From LCC Require Import Base.Util Model.Proj Model.Sched Model.Fixture Model.TaskSem Proofs.SchedP Proofs.DeterminismP.
From LCC Require Model.Report Model.Events Model.Writer Proofs.WriterOrderP Proofs.LinearizeP Proofs.TwoRunsP.

Theorem C05_results_schedule_independent : forall g rk (W : wf g rk) (sem : nat -> mode -> tres) n1 n2 ms1 ms2 s1 s2,
  1 <= n1 -> 1 <= n2 -> quiet ms1 -> quiet ms2 ->
  run g n1 false (init g n1) ms1 = Some s1 -> consistent_from g sem n1 (init g n1) ms1 ->
  run g n2 false (init g n2) ms2 = Some s2 -> consistent_from g sem n2 (init g n2) ms2 ->
  forall t r1 r2, t < length g -> result_of s1 t = Some r1 -> result_of s2 t = Some r2 -> r1 = r2.
Proof. intros g rk W sem. exact (results_schedule_independent g rk W sem). Qed.
Print Assumptions C05_results_schedule_independent.

Theorem C05_decisions_schedule_independent : forall g rk (W : wf g rk) (sem : nat -> mode -> tres) n1 n2 ms1 ms2 s1 s2,
  1 <= n1 -> 1 <= n2 -> quiet ms1 -> quiet ms2 ->
  run g n1 false (init g n1) ms1 = Some s1 -> consistent_from g sem n1 (init g n1) ms1 ->
  run g n2 false (init g n2) ms2 = Some s2 -> consistent_from g sem n2 (init g n2) ms2 ->
  forall t md1 md2, t < length g -> In (t, md1) (running s1) -> In (t, md2) (running s2) -> md1 = md2.
Proof. intros g rk W sem. exact (decisions_schedule_independent g rk W sem). Qed.
Print Assumptions C05_decisions_schedule_independent.

(* the canonical decision and result of a task exist at most once: they are determined along the dependency graph *)
Theorem C05_canonical_unique : forall g rk (W : wf g rk) (sem : nat -> mode -> tres) k t, rk t < k -> t < length g ->
  forall md r md' r', canon g sem t md r -> canon g sem t md' r' -> md = md' /\ r = r'.
Proof. intros g rk W sem. exact (canon_unique g rk W sem). Qed.
Print Assumptions C05_canonical_unique.

(* non-vacuity: two different interleavings of a three-task graph with different thread counts, same results *)
Example C05_witness :
  let g := [mkTask KSuiteBegin [5] [] []; mkTask KTest [5; 6] [0] []; mkTask KTest [5; 7] [0; 1] []] in
  let ms1 := [MTake 0 Run; MFinish 0 ResSuccess; MMain 0; MTake 1 Run; MFinish 1 (ResFailure (RTaskFailed 1)); MMain 1;
              MTake 2 (Skip (Some (RTaskFailed 1))); MFinish 2 (ResSkipped (Some (RTaskFailed 1)))] in
  let ms2 := [MTake 0 Run; MFinish 0 ResSuccess; MMain 0; MTake 1 Run; MFlag FFailure; MFinish 1 (ResFailure (RTaskFailed 1));
              MMain 1; MTake 2 (Skip (Some (RTaskFailed 1))); MFinish 2 (ResSkipped (Some (RTaskFailed 1)))] in
  (exists s1, run g 1 false (init g 1) ms1 = Some s1 /\ result_of s1 2 = Some (ResSkipped (Some (RTaskFailed 1)))) /\
  (exists s2, run g 3 false (init g 3) ms2 = Some s2 /\ result_of s2 2 = Some (ResSkipped (Some (RTaskFailed 1)))) /\
  quiet ms1 /\ quiet ms2.
Proof. repeat split; try (eexists; split; vm_compute; reflexivity); vm_compute; reflexivity. Qed.

(* ---- the report writer (Model/Writer.v = reporting/writer.py ReportWriter, tied to the code by C18's correspondence) ----
   The writer half of "N threads = 1 thread": the report the writer builds does not depend on how the event lists of
   independent tasks are interleaved, nor on which identifiers the worker threads happen to have.
   [indep] (executable, symmetric): two events are independent when they touch different things — different results
   (and, for step / log events, different threads), different suites, a new child and anything outside its subtree, two new
   children with different paths (also of the same parent: insertion order differs, the rank-sorted report does not).
   [aligned] : the open step of the emitting thread belongs to the result the event names (what C06/C07 give for a run).
   [keys_distinct] : sibling suites have distinct ranks and the tests of a suite distinct (rank, position) keys. *)
Module WriterLevel.
Import Report Events Writer WriterOrderP LinearizeP TwoRunsP.

(* two adjacent independent events may be applied in either order: same writer state up to the insertion order of children *)
Theorem C05_writer_independent_events_commute : forall w e1 e2 w1 w12,
  indep e1 e2 = true -> aligned w e1 -> aligned w1 e2 ->
  apply w e1 = Ok w1 -> apply w1 e2 = Ok w12 ->
  exists w2 w21, apply w e2 = Ok w2 /\ apply w2 e1 = Ok w21 /\ wequiv w12 w21 /\ aligned w e2 /\ aligned w2 e1.
Proof. exact apply_swap. Qed.
Print Assumptions C05_writer_independent_events_commute.

(* any stream obtained by repeatedly swapping adjacent independent events yields the same report (normal form) *)
Theorem C05_report_invariant_under_reordering : forall s1 s2 w1, trace_equiv s1 s2 ->
  apply_all init_wstate s1 = Ok w1 -> all_aligned init_wstate s1 -> keys_distinct w1 ->
  aggregate s1 = aggregate s2.
Proof. exact aggregate_trace_equiv_report. Qed.
Print Assumptions C05_report_invariant_under_reordering.

(* thread identifiers do not matter: renaming them injectively gives the same report ... *)
Theorem C05_report_invariant_under_thread_renaming : forall f s w,
  (forall a b, In a (threads s) -> In b (threads s) -> f a = f b -> a = b) ->
  apply_all init_wstate s = Ok w -> aggregate (map (rename f) s) = aggregate s.
Proof. exact aggregate_rename_report. Qed.
Print Assumptions C05_report_invariant_under_thread_renaming.

(* ... and threads that never have a step open at the same time may even be merged into one (N workers -> 1 worker) *)
Theorem C05_report_invariant_under_thread_merging : forall f s w, merge_ok f [] s -> apply_all init_wstate s = Ok w ->
  exists w', apply_all init_wstate (map (rename f) s) = Ok w' /\ normalize w' = normalize w.
Proof. exact aggregate_rename_merge. Qed.
Print Assumptions C05_report_invariant_under_thread_merging.
(* two runs: the same (tagged) events, every pair of dependent events in the same order => the same report.  No sequence of
   swaps has to be exhibited (Mazurkiewicz linearization lemma, LinearizeP.linearize). *)
Theorem C05_report_determined_by_order_of_dependent_events : forall (s1 s2 : list (nat * event)) w1,
  NoDup (map fst s1) -> Permutation.Permutation s1 s2 ->
  (forall x y, indep (snd x) (snd y) = false -> before x y s1 -> before x y s2) ->
  apply_all init_wstate (map snd s1) = Ok w1 -> all_aligned init_wstate (map snd s1) -> keys_distinct w1 ->
  aggregate (map snd s1) = aggregate (map snd s2).
Proof. exact aggregate_linearizations. Qed.
Print Assumptions C05_report_determined_by_order_of_dependent_events.

(* ... in the form the scheduler theorems feed: task_of = the task that emitted an event, ordered t t' = t' transitively
   depends on t.  H1 each task's own events keep their order; H2 in both runs a task's events come after the events of the
   tasks it depends on; H3 dependent events come from the same task or from ordered tasks. *)
Theorem C05_report_same_for_all_task_interleavings :
  forall (task_of : nat -> nat) (ordered : nat -> nat -> Prop) (s1 s2 : list (nat * event)) w1,
  NoDup (map fst s1) -> Permutation.Permutation s1 s2 ->
  (forall x y, task_of (fst x) = task_of (fst y) -> before x y s1 -> before x y s2) ->
  (forall x y, In x s1 -> In y s1 -> ordered (task_of (fst x)) (task_of (fst y)) -> before x y s1) ->
  (forall x y, In x s2 -> In y s2 -> ordered (task_of (fst x)) (task_of (fst y)) -> before x y s2) ->
  (forall x y, In x s1 -> In y s1 -> indep (snd x) (snd y) = false -> x <> y ->
     task_of (fst x) = task_of (fst y) \/ ordered (task_of (fst x)) (task_of (fst y)) \/
     ordered (task_of (fst y)) (task_of (fst x))) ->
  apply_all init_wstate (map snd s1) = Ok w1 -> all_aligned init_wstate (map snd s1) -> keys_distinct w1 ->
  aggregate (map snd s1) = aggregate (map snd s2).
Proof. exact aggregate_task_linearizations. Qed.
Print Assumptions C05_report_same_for_all_task_interleavings.

(* non-vacuity: two different concrete streams (sequential / overlapping runs of two tests) meeting every hypothesis *)
Example C05_linearization_witness : map snd LinEx.ts1 <> map snd LinEx.ts2 /\
  aggregate (map snd LinEx.ts1) = aggregate (map snd LinEx.ts2).
Proof. split; [exact LinEx.ts_differ | exact LinEx.ts_same_report]. Qed.
(* TWO RUNS, every premise executable (Proofs/TwoRunsP.v): linearization and thread merging composed.
   [base_par] is the N-thread stream, tagged, with every task under a thread identifier of its own; [base_seq] the same tagged
   events in the order of the 1-thread run; [f] sends a task's identifier to the worker thread that ran it, [T] is the single
   worker of the 1-thread run.  Renaming [base_par] by [f] gives the stream the N-thread run really produced, renaming
   [base_seq] by [fun _ => T] the stream of the 1-thread run (the check compares both with the recorded streams): the two
   writer states have the same normal form.  The check evaluates the ten premises on recorded pairs of runs. *)
Theorem C05_two_runs_same_report :
  forall (task_of : nat -> nat) (orderedb : nat -> nat -> bool) (base_seq base_par : list (nat * event))
         (f : tid -> tid) (T : tid) w,
  permb base_seq base_par = true ->
  preservedb (fun x y => Nat.eqb (task_of (fst x)) (task_of (fst y))) base_seq base_par = true ->
  startafterb task_of orderedb base_seq = true -> startafterb task_of orderedb base_par = true ->
  coverageb task_of orderedb base_seq = true ->
  apply_all init_wstate (map snd base_seq) = Ok w ->
  all_alignedb init_wstate (map snd base_seq) = true -> keys_distinctb w = true ->
  merge_okb (fun _ => T) [] (map snd base_seq) = true ->
  merge_okb f [] (map snd base_par) = true ->
  exists w1 wn, apply_all init_wstate (map (rename (fun _ => T)) (map snd base_seq)) = Ok w1 /\
                apply_all init_wstate (map (rename f) (map snd base_par)) = Ok wn /\
                normalize w1 = normalize wn.
Proof. exact two_runs_via_base. Qed.
Print Assumptions C05_two_runs_same_report.

(* the bundled boolean the harness evaluates (cheaper, equivalent-in-effect checkers) is sound for the same conclusion *)
Theorem C05_two_runs_check_sound : forall task_of orderedb base_seq base_par f T,
  two_runs_base_checkb task_of orderedb base_seq base_par f T = true ->
  exists w w1 wn, apply_all init_wstate (map snd base_seq) = Ok w /\
                  apply_all init_wstate (map (rename (fun _ => T)) (map snd base_seq)) = Ok w1 /\
                  apply_all init_wstate (map (rename f) (map snd base_par)) = Ok wn /\
                  normalize w1 = normalize wn.
Proof. exact two_runs_base_checkb_sound. Qed.
Print Assumptions C05_two_runs_check_sound.

(* non-vacuity: three tests on two workers (one worker runs two of them, the other overlaps both): the check holds, while the
   observed events alone -- without the base stream -- fail the coverage premise *)
Example C05_two_runs_witness :
  two_runs_base_checkb (task_of_table BaseEx.tasks3) (ordered_of_pairs BaseEx.order3) BaseEx.seq3 BaseEx.par3 BaseEx.f3 1%Z = true.
Proof. exact BaseEx.check3. Qed.
(* the hypothesis [keys_distinct] cannot be dropped: two sibling suites whose sort keys are EQUAL start independently, and the
   writer model lists them in the order their SuiteStart events arrive (a stable sort).  Same events, dependent pairs in the
   same order, different reports.  This was the real writer's behaviour for sibling suites sharing a rank (finding F24: two
   directories without a module are both rank 0); since the repair (ec34960) the writer sorts sibling suites by
   (rank, declared position) -- the key the harness encodes into n_rank for live streams -- so the keys of siblings are
   distinct in every run and the premise is an invariant; the witness is replayed on the real runner on every run. *)
Theorem C05_equal_rank_siblings_refuted :
  exists (s1 s2 : list (nat * event)) r1 r2,
    NoDup (map fst s1) /\ Permutation.Permutation s1 s2 /\
    (forall x y, indep (snd x) (snd y) = false -> before x y s1 -> before x y s2) /\
    all_aligned init_wstate (map snd s1) /\
    aggregate (map snd s1) = Ok r1 /\ aggregate (map snd s2) = Ok r2 /\ r1 <> r2.
Proof.
  pose (nA := mkNode [] (Ex.mk 97) 0%Z). pose (nB := mkNode [] (Ex.mk 98) 0%Z).
  exists [(0, ESessionStart 1%Z); (1, ESuiteStart nA 2%Z); (2, ESuiteStart nB 3%Z)],
         [(0, ESessionStart 1%Z); (2, ESuiteStart nB 3%Z); (1, ESuiteStart nA 2%Z)].
  do 2 eexists. split; [repeat constructor; cbn; intuition discriminate|].
  split; [apply Permutation.perm_skip; apply Permutation.perm_swap|].
  split.
  - intros x y Hd B.
    eapply (preservedb_sound _ (fun x y => negb (indep (snd x) (snd y)))); [| | |rewrite Hd; reflexivity|exact B].
    + repeat constructor; cbn; intuition discriminate.
    + intros z Hz. cbn in Hz |- *. intuition.
    + vm_compute. reflexivity.
  - split; [apply all_alignedb_sound; vm_compute; reflexivity|].
    split; [vm_compute; reflexivity|]. split; [vm_compute; reflexivity|]. vm_compute. discriminate.
Qed.
Print Assumptions C05_equal_rank_siblings_refuted.
End WriterLevel.
