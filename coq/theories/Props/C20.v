(* C20 — all views of a report agree on every test's outcome.  Statements only; the proofs are in Proofs/ViewsP.v.
   Spec side (ViewsP.v): count_status st r = length (filter (status is st) (all_tests r)), plain enumeration.
   Models: Model/Stats.v (ReportStats, build_message variables, console), Model/Junit.v, Model/Diff.v.
   The models describe the code WITH the repairs F12 (JUnit children only on failed tests), F13 (ReportStats.from_suites
   None-safe), F14 (build_message None-safe) and F18 (integer percentages) of DESIGN.md section 6: the statements these defects
   refuted now hold without the `finished` hypothesis.  What the code did before is kept as `..._unfixed_refuted` witnesses
   against the `..._unfixed` definitions of Model/Junit.v and Model/Stats.v; harness/props/c20.py replays the same witnesses on
   the implementation on every run (a tree without the repairs is reported with them). *)
From Coq Require Import List NArith ZArith Bool.
Import ListNotations.
From LCC Require Import Base.Util Model.Report Model.Stats Model.Junit Model.Diff Proofs.ViewsP.

(* ------------------------------------------------------------------ JUnit ------------------------------------------ *)
(* The <testcase> elements are exactly the tests of the report, in all_tests order; the children of each one are described
   without any hypothesis: a skipped child iff status = skipped, a failure/error child iff the status is failed and one of the
   logs is an error-level log or an unsuccessful check. *)
Theorem C20_junit_children : forall r j, junit_report r = VOk j ->
  flat_map js_cases (jr_suites j) = map (fun t => mkCase (m_name (t_meta t)) (junit_children (t_result t))) (all_tests r) /\
  forall t, In t (all_tests r) ->
    has_skipped_child (junit_children (t_result t)) = status_is s_skipped (t_result t) /\
    has_fail_child (junit_children (t_result t)) =
      status_is s_failed (t_result t) && negb (forallb step_successful (r_steps (t_result t))).
Proof. exact thm_junit_children. Qed.
Print Assumptions C20_junit_children.

(* With F12 repaired, for EVERY test of every report, no hypothesis: a failure/error child => status failed; skipped child <=>
   status skipped; a test in progress (status None) has no child at all. *)
Theorem C20_junit_child_status : forall r j, junit_report r = VOk j ->
  forall t, In t (all_tests r) ->
    (has_fail_child (junit_children (t_result t)) = true -> r_status (t_result t) = Some s_failed) /\
    (has_skipped_child (junit_children (t_result t)) = true <-> r_status (t_result t) = Some s_skipped) /\
    (r_status (t_result t) = None -> junit_children (t_result t) = []).
Proof. exact thm_junit_child_status. Qed.
Print Assumptions C20_junit_child_status.

(* C20_junit_iff, full statement (for every test: failure/error child <-> status failed, skipped child <-> status skipped).
   The remaining direction "status failed => failure/error child" needs the failed test to hold a failing log
   (failed_has_cause: what the report writer guarantees, `status = "passed" if result.is_successful() else "failed"`);
   C20_junit_iff_needs_failing_log shows that it cannot be dropped. *)
Theorem C20_junit_iff_partial : forall r j, junit_report r = VOk j ->
  forall t, In t (all_tests r) -> failed_has_cause (t_result t) ->
    (has_fail_child (junit_children (t_result t)) = true <-> r_status (t_result t) = Some s_failed) /\
    (has_skipped_child (junit_children (t_result t)) = true <-> r_status (t_result t) = Some s_skipped).
Proof. exact thm_junit_iff_partial. Qed.
Print Assumptions C20_junit_iff_partial.

Theorem C20_junit_iff_needs_failing_log : exists r j t,
  junit_report r = VOk j /\ In t (all_tests r) /\ r_status (t_result t) = Some s_failed /\
  ~ failed_has_cause (t_result t) /\
  has_fail_child (junit_children (t_result t)) = false /\
  jr_failures j = 1 /\ map js_failures (jr_suites j) = [1].
Proof. exact thm_junit_iff_needs_failing_log. Qed.
Print Assumptions C20_junit_iff_needs_failing_log.

(* F12, code before the repair (Junit.junit_children_unfixed): an in-progress test with an error log got an <error> child; its
   status is not failed and every failures counter is 0.  The repaired code gives that testcase no child. *)
Theorem C20_junit_iff_unfixed_refuted : exists r j t,
  junit_report r = VOk j /\ In t (all_tests r) /\ r_status (t_result t) = None /\
  junit_children_unfixed (t_result t) = [JError] /\
  has_fail_child (junit_children_unfixed (t_result t)) = true /\
  jr_failures j = 0 /\ map js_failures (jr_suites j) = [0] /\
  flat_map js_cases (jr_suites j) = [mkCase (m_name (t_meta t)) []].
Proof. exact thm_junit_iff_unfixed_refuted. Qed.
Print Assumptions C20_junit_iff_unfixed_refuted.

(* per-suite counters = the counts obtained by enumerating the tests of that suite (junit_shown r: the suites that have at
   least one test, with their path); they add up to the enumeration of the whole report; the top-level failures attribute is the
   number of failed tests and the top-level `tests` attribute is the number of PASSED tests (sic, junit.py line 71). *)
Theorem C20_junit_counters : forall r j, junit_report r = VOk j ->
  Forall2 (fun ps js =>
             js_name js = path_str (fst ps) /\
             js_tests js = length (s_tests_of (snd ps)) /\
             js_failures js = count_in s_failed (s_tests_of (snd ps)) /\
             js_skipped js = count_in s_skipped (s_tests_of (snd ps)))
          (junit_shown r) (jr_suites j) /\
  list_sum (map js_tests (jr_suites j)) = length (all_tests r) /\
  list_sum (map js_failures (jr_suites j)) = count_status s_failed r /\
  list_sum (map js_skipped (jr_suites j)) = count_status s_skipped r /\
  jr_failures j = count_status s_failed r /\ jr_tests j = count_status s_passed r.
Proof. exact thm_junit_counters. Qed.
Print Assumptions C20_junit_counters.

(* counters versus children: when every failed test holds a failing log, failures = number of testcases carrying a
   failure/error child and skipped = number of testcases carrying a skipped child (in-progress tests included). *)
Theorem C20_junit_counters_children_partial : forall r j, junit_report r = VOk j ->
  Forall (fun t => failed_has_cause (t_result t)) (all_tests r) ->
  Forall (fun js => js_failures js = length (filter (fun c => has_fail_child (jc_children c)) (js_cases js)) /\
                    js_skipped js = length (filter (fun c => has_skipped_child (jc_children c)) (js_cases js)))
         (jr_suites j).
Proof. exact thm_junit_counters_children_partial. Qed.
Print Assumptions C20_junit_counters_children_partial.

(* ------------------------------------------------------------------ ReportStats ------------------------------------- *)
Theorem C20_stats_counts : forall r s, from_report r = VOk s ->
  st_tests_nb s = length (all_tests r) /\
  n_passed (st_by s) = count_status s_passed r /\ n_failed (st_by s) = count_status s_failed r /\
  n_skipped (st_by s) = count_status s_skipped r /\ n_disabled (st_by s) = count_status s_disabled r /\
  enabled_nb (st_by s) = count_status s_passed r + count_status s_failed r + count_status s_skipped r.
Proof. exact thm_stats_counts. Qed.
Print Assumptions C20_stats_counts.

(* from_report returns for every report whose (truthy) test statuses are in Result.STATUSES; its only error is KeyError *)
Theorem C20_stats_total : forall r,
  (statuses_known r -> exists s, from_report r = VOk s) /\
  (forall e, from_report r = VErr e -> e = KeyError /\ ~ statuses_known r).
Proof. exact thm_stats_total. Qed.
Print Assumptions C20_stats_total.

(* ------------------------------------------------------------------ message-template variables --------------------- *)
(* whenever build_message returns, its integer variables are the enumeration counts *)
Theorem C20_message_vars : forall r m, message_ints r = VOk m ->
  mv_total m = length (all_tests r) /\
  mv_passed m = count_status s_passed r /\ mv_failed m = count_status s_failed r /\
  mv_skipped m = count_status s_skipped r /\ mv_disabled m = count_status s_disabled r /\
  mv_enabled m = count_status s_passed r + count_status s_failed r + count_status s_skipped r.
Proof. exact message_vars. Qed.
Print Assumptions C20_message_vars.

(* build_message returns on every report whose statuses are known, FINISHED OR NOT (F14 repaired); its only error is the
   KeyError of a status outside Result.STATUSES *)
Theorem C20_message_vars_total : forall r,
  (statuses_known r -> exists m, message_ints r = VOk m) /\
  (forall e, message_ints r = VErr e -> e = KeyError /\ ~ statuses_known r).
Proof. exact thm_message_total. Qed.
Print Assumptions C20_message_vars_total.

(* the duration variable reads "n/a" exactly when the start or the end time of the report is missing, and is end - start
   otherwise.  (start_time / end_time are asctime(localtime(t)); with t = None that is the current time: clock-dependent text
   that carries no outcome, left out of the model as before.) *)
Theorem C20_message_na : forall r m, message_ints r = VOk m ->
  (mv_duration m = None <-> rp_start r = None \/ rp_end r = None) /\
  (forall b e, rp_start r = Some b -> rp_end r = Some e -> mv_duration m = Some (e - b)%Z).
Proof. exact message_na. Qed.
Print Assumptions C20_message_na.

(* F14, code before the repair (Stats.message_ints_unfixed): the `duration` variable raised TypeError on an unfinished report,
   so that not even the counts could be obtained; the repaired code returns them *)
Theorem C20_message_vars_unfixed_refuted : exists r m, statuses_known r /\ rp_end r = None /\
  message_ints_unfixed r = VErr TypeError /\
  message_ints r = VOk m /\ mv_duration m = None /\ mv_total m = 1.
Proof. exact thm_message_unfixed_refuted. Qed.
Print Assumptions C20_message_vars_unfixed_refuted.

(* ------------------------------------------------------------------ percentages (integer arithmetic, F18 repaired) -- *)
(* pct v o, the number printed by _percent(v, of=o) and by the console "Successes" line, is 0 when o = 0 and the floor of
   100*v/o otherwise (29 out of 50 is 58) *)
Theorem C20_pct_floor : forall v o,
  (o = 0 -> pct v o = 0%Z) /\
  (0 < o -> (pct v o * Z.of_nat o <= Z.of_nat v * 100 < (pct v o + 1) * Z.of_nat o)%Z) /\
  (v <= o -> (0 <= pct v o <= 100)%Z).
Proof. exact thm_pct_floor. Qed.
Print Assumptions C20_pct_floor.

(* the *_pct message variables are these floors of the enumeration counts; passed_pct + failed_pct + skipped_pct never exceeds
   100 and is at least 98 when there is an enabled test *)
Theorem C20_message_pcts : forall r m, message_ints r = VOk m ->
  let p := message_pcts m in
  p_passed p = pct (count_status s_passed r) (enabled_count r) /\
  p_failed p = pct (count_status s_failed r) (enabled_count r) /\
  p_skipped p = pct (count_status s_skipped r) (enabled_count r) /\
  p_disabled p = pct (count_status s_disabled r) (length (all_tests r)) /\
  (0 <= p_passed p + p_failed p + p_skipped p <= 100)%Z /\
  (0 < enabled_count r -> (98 <= p_passed p + p_failed p + p_skipped p)%Z) /\
  (0 <= p_disabled p)%Z.
Proof. exact thm_message_pcts. Qed.
Print Assumptions C20_message_pcts.

(* the percentage of the console summary of the whole report is the passed_pct message variable *)
Theorem C20_console_pct_is_message_pct : forall r s m, from_report r = VOk s -> message_ints r = VOk m ->
  summary_pct s = p_passed (message_pcts m).
Proof. exact thm_console_pct_is_message_pct. Qed.
Print Assumptions C20_console_pct_is_message_pct.

(* ------------------------------------------------------------------ console (lcc report --short) ------------------- *)
(* whenever the console report is printed: the OK/KO/-- lines are the selected tests in order, the summary numbers are the
   enumeration counts of the selected tests (filter given) or of the whole report (no filter), and the percentage is the floor
   of 100 * passed / (passed + failed + skipped) of the same tests *)
Theorem C20_console_counts : forall truthy f r lines s,
  console_short truthy f r = VOk (COut lines s) ->
  let sel := filter (fun t => f (t_result t)) (all_tests r) in
  let shown := if truthy then sel else all_tests r in
  concat lines = map label_of sel /\
  sm_tests (summary_of s) = length shown /\
  sm_passed (summary_of s) = count_in s_passed shown /\
  sm_failed (summary_of s) = count_in s_failed shown /\
  sm_skipped (summary_of s) = nz (count_in s_skipped shown) /\
  sm_disabled (summary_of s) = nz (count_in s_disabled shown) /\
  summary_pct s = pct (count_in s_passed shown) (count_in s_passed shown + count_in s_failed shown + count_in s_skipped shown).
Proof. exact thm_console_counts. Qed.
Print Assumptions C20_console_counts.

(* "No test found or no matching test in the report" is printed only when no test of the report satisfies the filter *)
Theorem C20_console_no_test : forall truthy f r, console_short truthy f r = VOk CNoTest ->
  filter (fun t => f (t_result t)) (all_tests r) = [].
Proof. exact console_no_test. Qed.
Print Assumptions C20_console_no_test.

Theorem C20_console_labels : forall t, status_in_enum (r_status (t_result t)) ->
  (label_of t = LOK <-> r_status (t_result t) = Some s_passed) /\ (label_of t = LKO <-> r_status (t_result t) = Some s_failed).
Proof. exact thm_console_labels. Qed.
Print Assumptions C20_console_labels.

(* the console report is printed for every report with known statuses, FINISHED OR NOT, with or without a filter (F13
   repaired); its only error is the KeyError of a status outside Result.STATUSES *)
Theorem C20_console_total : forall truthy f r,
  (statuses_known r -> exists out, console_short truthy f r = VOk out) /\
  (forall e, console_short truthy f r = VErr e -> e = KeyError /\ ~ statuses_known r).
Proof. exact thm_console_total. Qed.
Print Assumptions C20_console_total.

(* F13, code before the repair (Stats.from_suites_unfixed): TypeError on the filtered suites of an unfinished report whose last
   selected result is in progress, IndexError on an empty selection; the repaired code prints the report (duration n/a) *)
Theorem C20_console_counts_unfixed_refuted : exists r s, statuses_known r /\ rf_truthy f_enabled_only = true /\
  from_suites_unfixed (filter_suites (rf_apply f_enabled_only) (rp_suites r)) (parallelized r) = VErr TypeError /\
  from_suites_unfixed [] false = VErr IndexError /\
  console_short true (rf_apply f_enabled_only) r = VOk (COut [[LDash]] s) /\
  st_duration s = None /\ st_tests_nb s = 1 /\
  exists s0, from_suites [] false = VOk s0 /\ st_tests_nb s0 = 0 /\ st_duration s0 = None.
Proof. exact thm_console_unfixed_refuted. Qed.
Print Assumptions C20_console_counts_unfixed_refuted.

(* ------------------------------------------------------------------ diff ------------------------------------------- *)
(* with unique test paths in each report (compute_diff matches tests by path, first come first served): added / removed /
   status-changed are exactly what their names say, none lists a path twice, and every path of either report falls in exactly
   one of added / removed / status-changed / unchanged *)
Theorem C20_diff_partition : forall f r1 r2, unique_test_paths r1 -> unique_test_paths r2 ->
  let l1 := dtests f r1 in let l2 := dtests f r2 in let d := diff_reports f r1 r2 in
  (forall x, In x (d_added d) <-> In x l2 /\ ~ In (fst x) (map fst l1)) /\
  (forall x, In x (d_removed d) <-> In x l1 /\ ~ In (fst x) (map fst l2)) /\
  (forall s1 s2 p, In (s1, s2, p) (d_changed d) <-> In (p, s1) l1 /\ In (p, s2) l2 /\ s1 <> s2) /\
  NoDup (map fst (d_added d)) /\ NoDup (map fst (d_removed d)) /\ NoDup (map snd (d_changed d)) /\
  forall p, In p (map fst l1) \/ In p (map fst l2) ->
    exactly_one (in_added p d) (in_removed p d) (in_changed p d) (unchanged p l1 l2).
Proof. exact thm_diff_partition. Qed.
Print Assumptions C20_diff_partition.

(* the hypothesis is needed: with a duplicated path the same set of (path, status) pairs gives a non-empty diff that lists the
   path twice *)
Theorem C20_diff_partition_needs_unique_paths : exists l1 l2 : list dtest,
  (forall x, In x l1 <-> In x l2) /\ length (d_changed (compute_diff l1 l2)) = 2 /\
  ~ NoDup (map snd (d_changed (compute_diff l1 l2))).
Proof. exact thm_diff_partition_needs_unique_paths. Qed.
Print Assumptions C20_diff_partition_needs_unique_paths.

(* no hypothesis needed *)
Theorem C20_diff_self_empty : forall f r, diff_reports f r r = mkDiff [] [] [] /\ diff_is_empty (diff_reports f r r) = true.
Proof. exact thm_diff_self_empty. Qed.
Print Assumptions C20_diff_self_empty.

(* ------------------------------------------------------------------ non-vacuity ------------------------------------ *)
Example C20_ex_hypotheses :
  statuses_known w_finished /\ unique_test_paths w_finished /\ unique_test_paths w_finished2 /\
  Forall (fun t => failed_has_cause (t_result t)) (all_tests w_finished) /\ length (all_tests w_finished) = 6 /\
  Forall (fun t => status_in_enum (r_status (t_result t))) (all_tests w_finished).
Proof.
  split; [vm_compute; reflexivity|].
  split; [apply nodupb_NoDup; vm_compute; reflexivity|].
  split; [apply nodupb_NoDup; vm_compute; reflexivity|].
  split; [repeat constructor; intro H; vm_compute in H |- *; first [reflexivity | discriminate H]|].
  split; [reflexivity|].
  repeat constructor; unfold status_in_enum; simpl; tauto.
Qed.

(* the hypotheses hold on an unfinished report too (a test in progress that already logged an error), and every view returns *)
Example C20_ex_unfinished :
  statuses_known w_unfinished /\ rp_end w_unfinished = None /\
  Forall (fun t => failed_has_cause (t_result t)) (all_tests w_unfinished) /\
  message_ints w_unfinished = VOk (mkMsg None 1 0 0 0 0 0) /\
  message_pcts (mkMsg None 1 0 0 0 0 0) = mkPcts 0 0 0 0 /\
  (exists j, junit_report w_unfinished = VOk j /\ flat_map js_cases (jr_suites j) = [mkCase [116%N] []]) /\
  (exists s, console_short false (fun _ => true) w_unfinished = VOk (COut [[LDash]] s)).
Proof.
  split; [vm_compute; reflexivity|]. split; [reflexivity|].
  split; [repeat constructor; intro H; vm_compute in H; discriminate H|].
  split; [vm_compute; reflexivity|]. split; [vm_compute; reflexivity|].
  split; eexists; [split|]; vm_compute; reflexivity.
Qed.

Example C20_ex_pct : pct 29 50 = 58%Z /\ pct 2 3 = 66%Z /\ pct 1 3 = 33%Z /\ pct 0 0 = 0%Z /\ pct 50 50 = 100%Z.
Proof. vm_compute. auto. Qed.

Example C20_ex_views :
  message_ints w_finished = VOk (mkMsg (Some 8000%Z) 6 5 2 2 1 1) /\
  message_pcts (mkMsg (Some 8000%Z) 6 5 2 2 1 1) = mkPcts 40 40 20 16 /\
  (exists j, junit_report w_finished = VOk j /\ map js_failures (jr_suites j) = [2; 0] /\ map js_skipped (jr_suites j) = [1; 0]
             /\ jr_failures j = 2) /\
  (exists s, console_short true (rf_apply f_enabled_only) w_finished = VOk (COut [[LOK; LKO; LKO; LDash]; [LOK]] s)
             /\ st_tests_nb s = 5 /\ n_disabled (st_by s) = 0).
Proof.
  split; [vm_compute; reflexivity|]. split; [vm_compute; reflexivity|].
  split; eexists; (split; [vm_compute; reflexivity|]); vm_compute; auto.
Qed.

Example C20_ex_diff :
  diff_reports (fun _ => true) w_finished w_finished2 =
  mkDiff [([115; 46; 122]%N, Some s_skipped)] [([115; 46; 100]%N, Some s_skipped)]
         [(Some s_failed, Some s_passed, [115; 46; 98]%N)].
Proof. vm_compute. reflexivity. Qed.

(* ------------------------------------------------------------------ tie of the model constants to the source -------- *)
(* gen/TablesViews.v is regenerated from /repo by harness/tables_views.py on every run (fail-closed on unknown shapes): the
   status names, the statuses counted as "enabled", the message variables (duration reads "n/a" on None), the JUnit
   child rules (failure/error only under `status == "failed"`) and counters, the console labels and summary lines the
   hand-written models are built on are the ones in the source.  The translator also pins, without emitting them, the shapes of
   _get_duration, Report.duration, ReportStats.from_results / from_report / from_suites, Report.build_message, _percent and
   successful_tests_percentage (integer `* 100 //`): a source without the repairs F12, F13, F14, F18 is rejected. *)
From LCC Require Import gen.TablesViews.
From Coq Require Import Strings.String Strings.Ascii.
Definition cp (x : string) : str := List.map N_of_ascii (list_ascii_of_string x).
Theorem C20_tables_tie :
  gen_statuses = [s_passed; s_failed; s_skipped; s_disabled] /\
  gen_enabled = [s_passed; s_failed; s_skipped] /\
  gen_message_vars = [(cp "start_time", [], []); (cp "end_time", [], []); (cp "duration", cp "None->n/a", []);
                      (cp "total", cp "*", []); (cp "enabled", cp "enabled", []);
                      (cp "passed", s_passed, []); (cp "passed_pct", s_passed, cp "enabled");
                      (cp "failed", s_failed, []); (cp "failed_pct", s_failed, cp "enabled");
                      (cp "skipped", s_skipped, []); (cp "skipped_pct", s_skipped, cp "enabled");
                      (cp "disabled", s_disabled, []); (cp "disabled_pct", s_disabled, cp "*")] /\
  gen_junit_rules = [(cp "status==skipped", cp "skipped"); (cp "status==failed&check:unsuccessful", cp "failure");
                     (cp "status==failed&log:level==error", cp "error")] /\
  gen_junit_suite = [(cp "tests", cp "*"); (cp "failures", s_failed); (cp "skipped", s_skipped)] /\
  gen_junit_top = [(cp "tests", s_passed); (cp "failures", s_failed)] /\
  gen_console_labels = [(s_passed, cp "OK"); (s_skipped, cp "--"); (s_disabled, cp "--"); (cp "None", cp "--"); (cp "*", cp "KO")] /\
  gen_console_summary = [(cp "Tests", cp "*", []); (cp "Successes", s_passed, cp "pct"); (cp "Failures", s_failed, []);
                         (cp "Skipped", s_skipped, cp "if"); (cp "Disabled", s_disabled, cp "if")].
Proof. vm_compute. repeat split; reflexivity. Qed.
Print Assumptions C20_tables_tie.
