(* C20 — all views of a report agree on every test's outcome.  Statements only; proofs are in Proofs/ViewsP.v. *)
From Coq Require Import List NArith ZArith Bool.
Import ListNotations.
From LCC Require Import Base.Util Model.Report Model.Stats Model.Junit Model.Diff Proofs.ViewsP.

(* ReportStats.from_report: whenever it returns, its numbers are the counts obtained by enumerating all_tests r and filtering
   by status; it returns for every report whose test statuses are in Result.STATUSES (or None / ""); otherwise KeyError. *)
Theorem C20_stats_counts : forall r s, from_report r = VOk s ->
  st_tests_nb s = length (all_tests r) /\
  n_passed (st_by s) = count_status s_passed r /\ n_failed (st_by s) = count_status s_failed r /\
  n_skipped (st_by s) = count_status s_skipped r /\ n_disabled (st_by s) = count_status s_disabled r.
Proof. intros r s H. exact (proj1 (stats_counts r s H)). Qed.
Print Assumptions C20_stats_counts.

Theorem C20_stats_total : forall r,
  (statuses_known r -> exists s, from_report r = VOk s) /\
  (forall e, from_report r = VErr e -> e = KeyError /\ ~ statuses_known r).
Proof. intro r. split; [apply stats_total | apply stats_err]. Qed.
Print Assumptions C20_stats_total.

Theorem C20_diff_self_empty : forall f r, diff_reports f r r = mkDiff [] [] [] /\ diff_is_empty (diff_reports f r r) = true.
Proof. intros f r. unfold diff_reports. rewrite diff_self_empty. split; reflexivity. Qed.
Print Assumptions C20_diff_self_empty.
