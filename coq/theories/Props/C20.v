(* C20 — all views of a report agree on every test's outcome.  Statements only; the proofs are in Proofs/ViewsP.v.
   Spec side (ViewsP.v): count_status st r = length (filter (status is st) (all_tests r)), plain enumeration.
   Models: Model/Stats.v (ReportStats, build_message variables, console), Model/Junit.v, Model/Diff.v.
   Statements that are false of the code as it is keep their hypothesis visible (`_partial`) and come with a `_refuted`
   witness (F12, F13, F14 of DESIGN.md section 6), which harness/props/c20.py re-observes on the implementation on every run. *)
From Coq Require Import List NArith ZArith Bool.
Import ListNotations.
From LCC Require Import Base.Util Model.Report Model.Stats Model.Junit Model.Diff Proofs.ViewsP.

(* ------------------------------------------------------------------ JUnit ------------------------------------------ *)
(* The <testcase> elements are exactly the tests of the report, in all_tests order; the children of each one are described
   without any hypothesis: a skipped child iff status = skipped, a failure/error child iff the test is not skipped and one of
   its logs is an error-level log or an unsuccessful check (whatever the status says). *)
Theorem C20_junit_children : forall r j, junit_report r = VOk j ->
  flat_map js_cases (jr_suites j) = map (fun t => mkCase (m_name (t_meta t)) (junit_children (t_result t))) (all_tests r) /\
  forall t, In t (all_tests r) ->
    has_skipped_child (junit_children (t_result t)) = status_is s_skipped (t_result t) /\
    has_fail_child (junit_children (t_result t)) =
      negb (status_is s_skipped (t_result t)) && negb (forallb step_successful (r_steps (t_result t))).
Proof. exact thm_junit_children. Qed.
Print Assumptions C20_junit_children.

(* C20_junit_iff, full statement (for every test: failure/error child <-> status failed, skipped child <-> status skipped) is
   FALSE of the code (C20_junit_iff_refuted).  Proved part: it holds for every test whose recorded verdict is sound
   (verdict_sound: unless skipped, status = failed exactly when a log is an error log or a failed check) — which the report
   writer guarantees for finished tests; what is missing is the in-progress test (status None) that already holds an error. *)
Theorem C20_junit_iff_partial : forall r j, junit_report r = VOk j ->
  forall t, In t (all_tests r) -> verdict_sound (t_result t) ->
    (has_fail_child (junit_children (t_result t)) = true <-> r_status (t_result t) = Some s_failed) /\
    (has_skipped_child (junit_children (t_result t)) = true <-> r_status (t_result t) = Some s_skipped).
Proof. exact thm_junit_iff_partial. Qed.
Print Assumptions C20_junit_iff_partial.

(* F12: an in-progress test with an error log gets an <error> child; its status is not failed and every failures counter is 0 *)
Theorem C20_junit_iff_refuted : exists r j t,
  junit_report r = VOk j /\ In t (all_tests r) /\ r_status (t_result t) = None /\
  In (mkCase (m_name (t_meta t)) [JError]) (flat_map js_cases (jr_suites j)) /\
  has_fail_child (junit_children (t_result t)) = true /\
  jr_failures j = 0 /\ map js_failures (jr_suites j) = [0].
Proof. exact thm_junit_iff_refuted. Qed.
Print Assumptions C20_junit_iff_refuted.

(* per-suite counters = the counts obtained by enumerating the tests of that suite (junit_shown r: the suites that have at
   least one test, with their path); they add up to the enumeration of the whole report; the top-level failures attribute is the
   number of failed tests and the top-level `tests` attribute is the number of PASSED tests (sic, junit.py line 71). *)
Theorem C20_junit_counters : forall r j, junit_report r = VOk j ->
  Forall2 (fun ps js =>
             js_name js = path_str (fst ps) /\
             js_tests js = length (s_tests_of (snd ps)) /\
             js_failures js = count_in s_failed (s_tests_of (snd ps)) /\
             js_skipped js = count_in s_skipped (s_tests_of (snd ps)))
          (junit_shown r) (jr_suites j) /\
  list_sum (map js_tests (jr_suites j)) = length (all_tests r) /\
  list_sum (map js_failures (jr_suites j)) = count_status s_failed r /\
  list_sum (map js_skipped (jr_suites j)) = count_status s_skipped r /\
  jr_failures j = count_status s_failed r /\ jr_tests j = count_status s_passed r.
Proof. exact thm_junit_counters. Qed.
Print Assumptions C20_junit_counters.

(* counters versus children: when the verdicts of a suite's tests are sound, failures = number of testcases carrying a
   failure/error child and skipped = number of testcases carrying a skipped child.  Missing: in-progress tests (F12). *)
Theorem C20_junit_counters_children_partial : forall r j, junit_report r = VOk j ->
  Forall (fun t => verdict_sound (t_result t)) (all_tests r) ->
  Forall (fun js => js_failures js = length (filter (fun c => has_fail_child (jc_children c)) (js_cases js)) /\
                    js_skipped js = length (filter (fun c => has_skipped_child (jc_children c)) (js_cases js)))
         (jr_suites j).
Proof. exact thm_junit_counters_children_partial. Qed.
Print Assumptions C20_junit_counters_children_partial.

(* ------------------------------------------------------------------ ReportStats ------------------------------------- *)
Theorem C20_stats_counts : forall r s, from_report r = VOk s ->
  st_tests_nb s = length (all_tests r) /\
  n_passed (st_by s) = count_status s_passed r /\ n_failed (st_by s) = count_status s_failed r /\
  n_skipped (st_by s) = count_status s_skipped r /\ n_disabled (st_by s) = count_status s_disabled r /\
  enabled_nb (st_by s) = count_status s_passed r + count_status s_failed r + count_status s_skipped r.
Proof. exact thm_stats_counts. Qed.
Print Assumptions C20_stats_counts.

(* from_report returns for every report whose (truthy) test statuses are in Result.STATUSES; its only error is KeyError *)
Theorem C20_stats_total : forall r,
  (statuses_known r -> exists s, from_report r = VOk s) /\
  (forall e, from_report r = VErr e -> e = KeyError /\ ~ statuses_known r).
Proof. exact thm_stats_total. Qed.
Print Assumptions C20_stats_total.

(* ------------------------------------------------------------------ message-template variables --------------------- *)
(* whenever build_message returns, its integer variables are the enumeration counts *)
Theorem C20_message_vars : forall r m, message_ints r = VOk m ->
  mv_total m = length (all_tests r) /\
  mv_passed m = count_status s_passed r /\ mv_failed m = count_status s_failed r /\
  mv_skipped m = count_status s_skipped r /\ mv_disabled m = count_status s_disabled r /\
  mv_enabled m = count_status s_passed r + count_status s_failed r + count_status s_skipped r.
Proof. exact message_vars. Qed.
Print Assumptions C20_message_vars.

(* "build_message returns for every report with known statuses" is FALSE (F14); it does on finished reports *)
Theorem C20_message_vars_partial : forall r, finished r -> statuses_known r -> exists m, message_ints r = VOk m.
Proof. exact thm_message_vars_partial. Qed.
Print Assumptions C20_message_vars_partial.

Theorem C20_message_vars_refuted : exists r, statuses_known r /\ message_ints r = VErr TypeError.
Proof. exact thm_message_vars_refuted. Qed.
Print Assumptions C20_message_vars_refuted.

(* ------------------------------------------------------------------ console (lcc report --short) ------------------- *)
(* whenever the console report is printed: the OK/KO/-- lines are the selected tests in order, and the summary numbers are the
   enumeration counts of the selected tests (filter given) or of the whole report (no filter) *)
Theorem C20_console_counts : forall truthy f r lines s,
  console_short truthy f r = VOk (COut lines s) ->
  let sel := filter (fun t => f (t_result t)) (all_tests r) in
  let shown := if truthy then sel else all_tests r in
  concat lines = map label_of sel /\
  sm_tests (summary_of s) = length shown /\
  sm_passed (summary_of s) = count_in s_passed shown /\
  sm_failed (summary_of s) = count_in s_failed shown /\
  sm_skipped (summary_of s) = nz (count_in s_skipped shown) /\
  sm_disabled (summary_of s) = nz (count_in s_disabled shown).
Proof. exact thm_console_counts. Qed.
Print Assumptions C20_console_counts.

(* "No test found or no matching test in the report" is printed only when no test of the report satisfies the filter *)
Theorem C20_console_no_test : forall truthy f r, console_short truthy f r = VOk CNoTest ->
  filter (fun t => f (t_result t)) (all_tests r) = [].
Proof. exact console_no_test. Qed.
Print Assumptions C20_console_no_test.

Theorem C20_console_labels : forall t, status_in_enum (r_status (t_result t)) ->
  (label_of t = LOK <-> r_status (t_result t) = Some s_passed) /\ (label_of t = LKO <-> r_status (t_result t) = Some s_failed).
Proof. exact thm_console_labels. Qed.
Print Assumptions C20_console_labels.

(* "the console report is printed for every report with known statuses" is FALSE with a filter (F13); true on finished reports *)
Theorem C20_console_counts_partial : forall truthy f r, finished r -> statuses_known r ->
  exists out, console_short truthy f r = VOk out.
Proof. exact console_total. Qed.
Print Assumptions C20_console_counts_partial.

Theorem C20_console_counts_refuted : exists r, statuses_known r /\
  rf_truthy f_enabled_only = true /\ console_short true (rf_apply f_enabled_only) r = VErr TypeError /\
  exists out, console_short false (fun _ => true) r = VOk out.
Proof. exact thm_console_counts_refuted. Qed.
Print Assumptions C20_console_counts_refuted.

(* ------------------------------------------------------------------ diff ------------------------------------------- *)
(* with unique test paths in each report (compute_diff matches tests by path, first come first served): added / removed /
   status-changed are exactly what their names say, none lists a path twice, and every path of either report falls in exactly
   one of added / removed / status-changed / unchanged *)
Theorem C20_diff_partition : forall f r1 r2, unique_test_paths r1 -> unique_test_paths r2 ->
  let l1 := dtests f r1 in let l2 := dtests f r2 in let d := diff_reports f r1 r2 in
  (forall x, In x (d_added d) <-> In x l2 /\ ~ In (fst x) (map fst l1)) /\
  (forall x, In x (d_removed d) <-> In x l1 /\ ~ In (fst x) (map fst l2)) /\
  (forall s1 s2 p, In (s1, s2, p) (d_changed d) <-> In (p, s1) l1 /\ In (p, s2) l2 /\ s1 <> s2) /\
  NoDup (map fst (d_added d)) /\ NoDup (map fst (d_removed d)) /\ NoDup (map snd (d_changed d)) /\
  forall p, In p (map fst l1) \/ In p (map fst l2) ->
    exactly_one (in_added p d) (in_removed p d) (in_changed p d) (unchanged p l1 l2).
Proof. exact thm_diff_partition. Qed.
Print Assumptions C20_diff_partition.

(* the hypothesis is needed: with a duplicated path the same set of (path, status) pairs gives a non-empty diff that lists the
   path twice *)
Theorem C20_diff_partition_needs_unique_paths : exists l1 l2 : list dtest,
  (forall x, In x l1 <-> In x l2) /\ length (d_changed (compute_diff l1 l2)) = 2 /\
  ~ NoDup (map snd (d_changed (compute_diff l1 l2))).
Proof. exact thm_diff_partition_needs_unique_paths. Qed.
Print Assumptions C20_diff_partition_needs_unique_paths.

(* no hypothesis needed *)
Theorem C20_diff_self_empty : forall f r, diff_reports f r r = mkDiff [] [] [] /\ diff_is_empty (diff_reports f r r) = true.
Proof. exact thm_diff_self_empty. Qed.
Print Assumptions C20_diff_self_empty.

(* ------------------------------------------------------------------ non-vacuity ------------------------------------ *)
Example C20_ex_hypotheses :
  finished w_finished /\ statuses_known w_finished /\ unique_test_paths w_finished /\ unique_test_paths w_finished2 /\
  Forall (fun t => verdict_sound (t_result t)) (all_tests w_finished) /\ length (all_tests w_finished) = 6 /\
  Forall (fun t => status_in_enum (r_status (t_result t))) (all_tests w_finished).
Proof.
  split; [repeat split; try discriminate; vm_compute; reflexivity|].
  split; [vm_compute; reflexivity|].
  split; [apply nodupb_NoDup; vm_compute; reflexivity|].
  split; [apply nodupb_NoDup; vm_compute; reflexivity|].
  split; [repeat constructor; intro; vm_compute; reflexivity|].
  split; [reflexivity|].
  repeat constructor; unfold status_in_enum; simpl; tauto.
Qed.

Example C20_ex_views :
  message_ints w_finished = VOk (mkMsg 8000 6 5 2 2 1 1) /\
  (exists j, junit_report w_finished = VOk j /\ map js_failures (jr_suites j) = [2; 0] /\ map js_skipped (jr_suites j) = [1; 0]
             /\ jr_failures j = 2) /\
  (exists s, console_short true (rf_apply f_enabled_only) w_finished = VOk (COut [[LOK; LKO; LKO; LDash]; [LOK]] s)
             /\ st_tests_nb s = 5 /\ n_disabled (st_by s) = 0).
Proof.
  split; [vm_compute; reflexivity|]. split; eexists; (split; [vm_compute; reflexivity|]); vm_compute; auto.
Qed.

Example C20_ex_diff :
  diff_reports (fun _ => true) w_finished w_finished2 =
  mkDiff [([115; 46; 122]%N, Some s_skipped)] [([115; 46; 100]%N, Some s_skipped)]
         [(Some s_failed, Some s_passed, [115; 46; 98]%N)].
Proof. vm_compute. reflexivity. Qed.

(* ------------------------------------------------------------------ tie of the model constants to the source -------- *)
(* gen/TablesViews.v is regenerated from /repo by harness/tables_views.py on every run (fail-closed on unknown shapes): the
   status names, the statuses counted as "enabled", the message variables, the JUnit child rules and counters, the console
   labels and summary lines the hand-written models are built on are the ones in the source. *)
From LCC Require Import gen.TablesViews.
From Coq Require Import Strings.String Strings.Ascii.
Definition cp (x : string) : str := List.map N_of_ascii (list_ascii_of_string x).
Theorem C20_tables_tie :
  gen_statuses = [s_passed; s_failed; s_skipped; s_disabled] /\
  gen_enabled = [s_passed; s_failed; s_skipped] /\
  gen_message_vars = [(cp "start_time", [], []); (cp "end_time", [], []); (cp "duration", [], []);
                      (cp "total", cp "*", []); (cp "enabled", cp "enabled", []);
                      (cp "passed", s_passed, []); (cp "passed_pct", s_passed, cp "enabled");
                      (cp "failed", s_failed, []); (cp "failed_pct", s_failed, cp "enabled");
                      (cp "skipped", s_skipped, []); (cp "skipped_pct", s_skipped, cp "enabled");
                      (cp "disabled", s_disabled, []); (cp "disabled_pct", s_disabled, cp "*")] /\
  gen_junit_rules = [(cp "status==skipped", cp "skipped"); (cp "check:unsuccessful", cp "failure");
                     (cp "log:level==error", cp "error")] /\
  gen_junit_suite = [(cp "tests", cp "*"); (cp "failures", s_failed); (cp "skipped", s_skipped)] /\
  gen_junit_top = [(cp "tests", s_passed); (cp "failures", s_failed)] /\
  gen_console_labels = [(s_passed, cp "OK"); (s_skipped, cp "--"); (s_disabled, cp "--"); (cp "None", cp "--"); (cp "*", cp "KO")] /\
  gen_console_summary = [(cp "Tests", cp "*", []); (cp "Successes", s_passed, cp "pct"); (cp "Failures", s_failed, []);
                         (cp "Skipped", s_skipped, cp "if"); (cp "Disabled", s_disabled, cp "if")].
Proof. vm_compute. repeat split; reflexivity. Qed.
Print Assumptions C20_tables_tie.
