(* C14 — A project that passes validation cannot fail for structural reasons.
   Only statements here. Models: Model/{Fixture,Deps,Policy,Validate}.v ; proofs: Proofs/{FixtureP,DepsP,ValidateP}.v.

   Vocabulary (defined in the Proofs files, all Prop-level):
     validate x                PreparedProject.create: policy -> dependencies -> registry -> check_dependencies -> check_fixtures_in_suites
     well_loaded x             the two input assumptions: load_fixtures() returns Fixture objects (fx_builtin = false); a scheduled
                               test has the dependencies of the test loaded under the same path (suites = filter of load_suites())
     Invalid x                 exists r, InvalidBecause x r, where InvalidBecause lists, per kind r:
       PolInvalid              a scheduled suite/test has an unknown / forbidden / missing property, a property value outside the
                               accepted values, an unknown / forbidden tag
       DepInvalid              a scheduled test depends on a path that is not loaded / not scheduled, or lies on a dependency cycle
       builtin clash           a user fixture is named cli_args or project_dir
       FxInvalid               (fixture_table = last definition of each name) a fixture is named fixture_name; a fixture lies on a
                               parameter cycle; a parameter is unknown; a non-test fixture uses a per-thread fixture; a fixture
                               uses a fixture of a narrower scope
       UseInvalid              a scheduled suite (injected / setup_suite) uses an unknown, per-thread or test-scoped fixture; a
                               scheduled test uses an unknown fixture *)
From Coq Require Import List Arith Bool Relations.
Import ListNotations.
From LCC Require Import Base.Util Model.Sched Model.Graph Model.TaskSem Model.TaskSemEq Proofs.SchedP Proofs.GreenP.
From LCC Require Import Model.Proj Model.Fixture Model.Deps Model.Policy Model.Validate
                        Proofs.FixtureP Proofs.DepsP Proofs.ValidateP.

(* Validation rejects, with a ValidationError, exactly the invalid projects, for all fixture graphs, uses, dependency graphs,
   policies and metadata; and it never ends otherwise (no KeyError, no exhausted fuel: the recursions terminate on cyclic input). *)
Theorem C14_rejects_exactly : forall x : xproject, well_loaded x ->
  ((exists r, validate x = Err (ValidationError r)) <-> Invalid x) /\
  ((exists pp, validate x = Ok pp) \/ (exists r, validate x = Err (ValidationError r))).
Proof. exact rejects_exactly. Qed.
Print Assumptions C14_rejects_exactly.

(* `lcc check` / an unfiltered `lcc run` (suites = load_suites()): only the assumption on load_fixtures() remains *)
Theorem C14_lcc_check_rejects_exactly : forall x : xproject,
  user_fixtures (p_fixtures (xp_proj x)) -> p_suites (xp_proj x) = p_all_suites (xp_proj x) ->
  ((exists r, validate x = Err (ValidationError r)) <-> Invalid x) /\
  ((exists pp, validate x = Ok pp) \/ (exists r, validate x = Err (ValidationError r))).
Proof. exact lcc_check_rejects_exactly. Qed.
Print Assumptions C14_lcc_check_rejects_exactly.

(* the check that rejects names a kind of invalidity the project really has *)
Theorem C14_rejection_reason : forall (x : xproject) (r : reason), well_loaded x ->
  validate x = Err (ValidationError r) -> InvalidBecause x r.
Proof. exact rejection_reason_sound. Qed.
Print Assumptions C14_rejection_reason.

(* the fuel bounds, on every registry and every pair of test tables (cyclic or not): the ref_fixtures / ref_tests checks are
   the termination argument *)
Theorem C14_fixture_recursion_terminates : forall (reg : registry) (n : name), fixture_deps reg n <> Err OutOfFuel.
Proof. exact fixture_deps_never_out_of_fuel. Qed.
Print Assumptions C14_fixture_recursion_terminates.

Theorem C14_dependency_recursion_terminates : forall (sched all : dict test) (p : path) (deps : list path),
  resolve_test_dependencies (resolve_fuel all) sched all p deps [] <> Err OutOfFuel.
Proof. exact resolve_root_never_out_of_fuel. Qed.
Print Assumptions C14_dependency_recursion_terminates.

(* Soundness of an accepted project for the fixture machinery. dry_run (Model/Fixture.v) performs, in the runner's order,
   every ScheduledFixtures operation of a run in which no user code fails: the pre_run, session, suite (pre-order) and test
   schedules are built by get_fixtures_scheduled_for_*; their fixtures are set up in get_setup_teardown_pairs order
   (_setup_fixture: "already executed" assertion, _get_fixture_params -> get_fixture_result on the chain of parents); then
   the injected fixtures and setup_suite arguments of every suite that gets an initialisation task, and the arguments of
   every test that is enabled or forced, are looked up; finally every level is torn down in reverse setup order
   (_teardown_fixture). Every one of these operations succeeds: no LookupError ("Cannot find fixture"), no AssertionError
   ("has not been previously executed" / "already been executed"), no KeyError, whatever force_disabled is.
   NOT covered here (needs the runner's dynamic model, Exec.v): runs in which a setup fails part-way (the runner then skips
   the remaining setups and the consumers), interleavings between threads, and the per-thread results. *)
Theorem C14_no_structural_failure : forall (x : xproject) (pp : prepared) (force_disabled : bool), well_loaded x ->
  validate x = Ok pp -> dry_run (pp_registry pp) (p_suites (xp_proj x)) force_disabled = Ok tt.
Proof. exact no_structural_failure. Qed.
Print Assumptions C14_no_structural_failure.

(* the same fact schedule by schedule, declaratively (level_facts): each schedule of a validated registry exists, has no
   duplicate, holds exactly the fixtures of its scope reachable from its direct fixtures (closure under transitive
   dependencies), and lists each fixture after all its parameters of the same scope (dependency-first order) *)
Theorem C14_schedules_sound : forall (x : xproject) (pp : prepared) (direct : list name) (sc : scope), well_loaded x ->
  validate x = Ok pp -> (forall f, In f direct -> reg_mem (pp_registry pp) f = true) ->
  exists fxs, get_scheduled_fixtures_for_scope (pp_registry pp) direct sc = Ok fxs /\
              level_facts (pp_registry pp) direct sc fxs.
Proof. exact schedules_sound. Qed.
Print Assumptions C14_schedules_sound.

(* ---------------------------------------------------------------------------------------------------------------------
   PLACE RESERVED FOR C14_green (coordinator): "for a validated project whose scripts do not fail, every test of the report
   is passed or disabled". It needs the runner model (Graph/Exec/Writer) and will be stated here over Exec.exec; until
   then it is tied through the correspondence only: harness/props/c14.py really runs every accepted generated project
   (1 thread and 2-8 threads, with and without force_disabled) and requires all tests passed/disabled and no exception.
   --------------------------------------------------------------------------------------------------------------------- *)

(* ------------------------------------------------------------------ non-vacuity *)
Definition ex_fixtures : list fixture :=
  [ mkFixture 5 ScTest [4; 0; 3] false false false [] [];       (* test fixture using a per-thread suite fixture, fixture_name, a session one *)
    mkFixture 4 ScSuite [3] true false true [] [];              (* per-thread, suite scope *)
    mkFixture 3 ScSession [6; 1] false false false [] [];       (* session fixture using a pre_run one and cli_args *)
    mkFixture 6 ScPreRun [] false false false [] [] ].
Definition ex_suite (deps : list path) (setup_args : list name) : suite :=
  Suite 10 false (mkHooks (Some (setup_args, [])) None None None) [6]
        [ mkTest 11 false [] [5; 900] [900] []; mkTest 12 false deps [3] [] []; mkTest 13 true [] [4] [] [] ]
        [ Suite 20 false (mkHooks None None None None) [] [ mkTest 21 false [[10; 12]] [5; 2] [] [] ] [] ].
Definition ex_policy : policy := mkPolicy [mkPropRule 1 [7; 8] true false true] [mkTagRule 2 false true] true true.
Definition ex_md (v : name) : metadata_map :=
  mkMdMap [([10], mkMeta [] [2])]
          [([10; 11], mkMeta [(1, 7)] []); ([10; 12], mkMeta [(1, v)] []); ([10; 13], mkMeta [(1, 8)] []); ([10; 20; 21], mkMeta [(1, 7)] [])].
Definition ex_project (fxs : list fixture) (deps : list path) (setup_args : list name) (v : name) : xproject :=
  mkXProject (mkProject fxs [ex_suite deps setup_args] [ex_suite deps setup_args]) ex_policy (ex_md v).

(* "Any project it accepts, whose user code does not fail, runs to a report in which every test is passed or disabled" — in
   the run model (Model/Sched.v + Model/TaskSem.v).  User code that does not fail = quiet scripts: no raise, no failed check,
   no error log, in test bodies, hooks, fixture setups and teardowns and in the threads they start (quiet_project).
   Layer 3: every task of such a project that is run ends with Success — a test runs its setup_test, fixtures, body,
   teardowns and ends passed; a disabled test is reported disabled; setups and teardowns succeed — whatever the
   decision that was taken for the matching setup task. *)
Theorem C14_green_tasks : forall pr reg force t setup_md o,
  quiet_project pr reg -> task_sem pr reg force t Run setup_md = Some o -> to_res o = TkSuccess.
Proof. exact task_sem_green. Qed.
Print Assumptions C14_green_tasks.

(* Layers 1 + 3: in every run of such a project — every task graph, every thread count n >= 1, every interleaving — in which
   each finished task has the result layer 3 predicts for the decision it was taken with (l3_consistent: the relation the
   per-task correspondence checks on every co-simulated run) and nobody presses Ctrl-C (no flag can be raised by quiet code),
   once the run is over every task has been taken exactly once, was run and not skipped, and ended with Success.
   (That the graph exists and the run terminates without deadlock for a validated project: C01_validated_project_graph,
   C01_no_deadlock_for_validated_projects, C01_terminates; that no fixture operation fails: C14_no_structural_failure.) *)
Theorem C14_green_run : forall pr reg force g n sof ms s,
  quiet_project pr reg -> 1 <= n ->
  run g n sof (init g n) ms = Some s -> forallb calm_move ms = true -> l3_consistent pr reg force g ms ->
  finished g s = true ->
  forall t, t < length g ->
    count (is_take t) ms = 1 /\ In (MTake t Run) ms /\ result_of s t = Some ResSuccess.
Proof. exact quiet_project_all_green. Qed.
Print Assumptions C14_green_run.

(* the dispatch-loop half on its own: when every finished task succeeded and nothing raised a flag, nothing is ever skipped *)
Theorem C14_green_dispatch : forall g n sof ms s, 1 <= n -> run g n sof (init g n) ms = Some s -> forallb green_move ms = true ->
  (forall t md, In (MTake t md) ms -> md = Run) /\ cx s = ctx0 /\ (forall t r, result_of s t = Some r -> r = ResSuccess) /\
  (forall t, In t (completed s) -> result_of s t = Some ResSuccess).
Proof. exact green_run. Qed.
Print Assumptions C14_green_dispatch.

(* non-vacuity: a project with a quiet generator fixture, hooks and a body that logs, checks and starts a thread is quiet, and
   its test task passes *)
Example C14_witness_quiet :
  let fx := mkFixture 20 ScTest [] false false true [ALog 1 1] [ALog 1 2] in
  let hk := mkHooks None None (Some [ASetStep 3]) (Some [ACheck true 4]) in
  let t := mkTest 7 false [] [20] [] [ALog 1 5; ASpawn [ACheck true 6]; AJoin; AUse 20] in
  let pr := mkProject [fx] [Suite 5 false hk [] [t] []] [Suite 5 false hk [] [t] []] in
  let reg := [(20, fx)] in
  quiet_project pr reg /\
  option_map to_res (task_sem pr reg false (mkTask KTest [5; 7] [0] []) Run None) = Some TkSuccess.
Proof.
  split; [|vm_compute; reflexivity].
  apply quiet_registry_project.
  - intros s [Hs|[]]. subst s. vm_compute. reflexivity.
  - intros n fx0 H. simpl in H. destruct (Nat.eqb n 20); [|discriminate]. inversion H. vm_compute. reflexivity.
Qed.

(* an accepted project with all four scopes, a per-thread fixture, dependencies, a policy; its test schedule and dry run *)
Example C14_witness_accepted :
  exists pp, validate (ex_project ex_fixtures [[10; 11]] [3] 8) = Ok pp /\
    pp_resolved pp = [([10; 11], []); ([10; 12], [[10; 11]]); ([10; 13], []); ([10; 20; 21], [[10; 12]])] /\
    (exists l, get_fixtures_scheduled_for_session (pp_registry pp) [ex_suite [[10; 11]] [3]] false = Ok l /\ map fx_name l = [3]) /\
    dry_run (pp_registry pp) [ex_suite [[10; 11]] [3]] true = Ok tt.
Proof. eexists. split; [vm_compute; reflexivity|]. split; [vm_compute; reflexivity|]. split; [eexists; split; vm_compute; reflexivity|]. vm_compute. reflexivity. Qed.

(* rejected projects of several kinds: a fixture cycle of length 3, a dependency cycle, a per-thread fixture in setup_suite,
   a property value outside the accepted ones *)
Example C14_witness_rejected :
  validate (ex_project (ex_fixtures ++ [mkFixture 6 ScPreRun [5] false false false [] []]) [[10; 11]] [3] 8) = Err (ValidationError RFxCircular) /\
  validate (ex_project ex_fixtures [[10; 20; 21]] [3] 8) = Err (ValidationError RDepCircular) /\
  validate (ex_project ex_fixtures [[10; 11]] [4] 8) = Err (ValidationError RSuitePerThreadFx) /\
  validate (ex_project ex_fixtures [[10; 11]] [3] 9) = Err (ValidationError RPolBadValue).
Proof. repeat split; vm_compute; reflexivity. Qed.

(* the input assumptions are satisfiable on these projects *)
Example C14_witness_well_loaded : well_loaded (ex_project ex_fixtures [[10; 11]] [3] 8).
Proof.
  split.
  - intros fx Hin. simpl in Hin. repeat (destruct Hin as [Hin|Hin]; [subst fx; reflexivity|]). destruct Hin.
  - intros p t Hp. exists t. split; [exact Hp | reflexivity].
Qed.
