(* C14 — placeholder while the proofs are written (replaced below). *)
From Coq Require Import List Arith.
Import ListNotations.
From LCC Require Import Model.Proj Model.Fixture Model.Deps Model.Policy Model.Validate.

Theorem C14_tmp : validate (plain (mkProject [] [] [])) = Ok (mkPrepared initial_registry []).
Proof. vm_compute. reflexivity. Qed.
Print Assumptions C14_tmp.
