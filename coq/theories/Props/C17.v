(* C17 — A check's description says what was actually verified.
   Only statements here; proofs are in Proofs/DescribeP.v; the model is Model/Describe.v (over Model/Matcher.v).
   `not_of_source` (gen/TablesMatchers.v) is how composites.Not.build_description is written in the source now:
   the theorems about the transformer are stated for it, so they are re-checked against the code on every run. *)
From Coq Require Import List Bool NArith ZArith.
Import ListNotations.
From LCC Require Import Base.Util Model.PyVal Model.Matcher gen.TablesMatchers Model.Describe Proofs.DescribeP.

(* No build_description, at any nesting depth, leaves the transformer object it received different from how it found it. *)
Theorem C17_transformer_preserved : forall (m : matcher) (t : transf), snd (describe_st not_of_source m t) = t.
Proof. exact transformer_preserved. Qed.
Print Assumptions C17_transformer_preserved.

(* Hence the wording of an operand of all_of / any_of does not depend on its siblings: the composite's description is the
   layout (single line, or itemised under the 100-character / newline / nested-composite rules) of the descriptions the
   operands have on their own under the same transformer settings. *)
Theorem C17_sibling_independent : forall ms t,
  describe_st not_of_source (AllOf ms) t =
    (layout ms rel_and (map (fun m => fst (describe_st not_of_source m t)) ms), t) /\
  describe_st not_of_source (AnyOf ms) t =
    (layout ms rel_or (map (fun m => fst (describe_st not_of_source m t)) ms), t).
Proof. exact sibling_independent. Qed.
Print Assumptions C17_sibling_independent.

(* not_(not_(m)) is described exactly like m *)
Theorem C17_double_negation : forall m t, describe_st not_of_source (Not (Not m)) t = describe_st not_of_source m t.
Proof. exact double_negation_wording. Qed.
Print Assumptions C17_double_negation.

(* negation in the wording follows negation in the logic: not_(m) is described as m with the negation flag of the
   transformer flipped, and accepts exactly the opposite *)
Theorem C17_negation_follows_logic : forall m t v,
  fst (describe_st not_of_source (Not m) t) = fst (describe_st not_of_source m (flip t)) /\
  truth (matches (Not m) v) = rmap negb (truth (matches m v)).
Proof. exact negation_follows_logic. Qed.
Print Assumptions C17_negation_follows_logic.

(* F9a (DESIGN section 6): with Not.build_description written `transformation.negative = True` on the shared object,
   the two statements above are false: all_of(is_not_none(), greater_than(0)) words its second operand in the negative and
   hands a modified transformer back; not_(not_(m)) is worded like not_(m). (Statements about the pre-fix variant of the
   model; fixes/F09a-*.patch turns the source into the NotFresh variant.) *)
Theorem C17_sibling_independent_mutating_refuted : exists ms t,
  fst (describe_st NotMutates (AllOf ms) t) <> layout ms rel_and (map (fun m => fst (describe_st NotMutates m t)) ms) /\
  snd (describe_st NotMutates (AllOf ms) t) <> t.
Proof. exact sibling_independent_mutating_refuted. Qed.
Print Assumptions C17_sibling_independent_mutating_refuted.

Theorem C17_double_negation_mutating_refuted : exists m v,
  fst (describe_st NotMutates (Not (Not m)) fresh) = fst (describe_st NotMutates (Not m) fresh) /\
  accepts (Not (Not m)) v = true /\ accepts (Not m) v = false.
Proof. exact double_negation_mutating_refuted. Qed.
Print Assumptions C17_double_negation_mutating_refuted.

(* Full faithfulness would be:  forall m1 m2, describe m1 = describe m2 -> forall v, accepts m1 v = accepts m2 v.
   It is false of the code (F9b, known findings; each witness is replayed on the implementation by the check):
   a negated composite is worded like the composite of the negations; all_of() and any_of() are both ":";
   dict keys lose their type in json.dumps; and, outside the property's fragment, a composite behind
   hide_result_details() is rendered on its parent's line without grouping. *)
Theorem C17_faithful_refuted_negated_composite : exists m1 m2 v,
  describe not_of_source m1 = describe not_of_source m2 /\ accepts m1 v = true /\ accepts m2 v = false.
Proof. exact faithful_refuted_negated_composite. Qed.
Print Assumptions C17_faithful_refuted_negated_composite.

Theorem C17_faithful_refuted_empty_composite : exists m1 m2 v,
  describe not_of_source m1 = describe not_of_source m2 /\ accepts m1 v = true /\ accepts m2 v = false.
Proof. exact faithful_refuted_empty_composite. Qed.
Print Assumptions C17_faithful_refuted_empty_composite.

Theorem C17_faithful_refuted_dict_key : exists m1 m2 v,
  describe not_of_source m1 = describe not_of_source m2 /\ accepts m1 v = true /\ accepts m2 v = false.
Proof. exact faithful_refuted_dict_key. Qed.
Print Assumptions C17_faithful_refuted_dict_key.

Theorem C17_faithful_refuted_wrapped_composite : exists m1 m2 v,
  describe not_of_source m1 = describe not_of_source m2 /\ accepts m1 v = true /\ accepts m2 v = false.
Proof. exact faithful_refuted_wrapped_composite. Qed.
Print Assumptions C17_faithful_refuted_wrapped_composite.

(* What is proved of faithfulness (partial): at TOKEN level.  Leaf wordings and their negative forms are opaque tokens
   (a literal = a leaf matcher or a negated leaf), "and" / "or" / ":" / "-" are tokens, and the indentation of the itemised
   form is read as structure (doc).  For expressions built from literals with non-empty all_of / any_of nested to any depth,
   rendered on one line or itemised by whatever decision the length rule takes (`single`), the description determines the
   verdicts: two expressions with the same rendering accept the same values, whatever the leaves mean (val).
   MISSING for the full statement (and false in general, see the refuted theorems above): not_ applied to a composite, empty
   composites, wrappers, the sub-descriptions of has_item / has_entry / ..., and the step from strings to tokens (a user
   string containing " and " or a newline is not a token boundary; string-level injectivity is not claimed). *)
Theorem C17_faithful_partial : forall (s1 s2 : list fexpr -> bool) (e1 e2 : fexpr),
  fexpr_wf e1 = true -> fexpr_wf e2 = true ->
  render s1 e1 = render s2 e2 ->
  forall val : nat -> bool, fsem val e1 = fsem val e2.
Proof. exact faithful_partial_nested. Qed.
Print Assumptions C17_faithful_partial.

(* the non-emptiness hypothesis is needed: all_of() / any_of() *)
Theorem C17_faithful_partial_needs_nonempty : exists s f1 f2 val,
  render_flat s f1 = render_flat s f2 /\ flat_sem val f1 <> flat_sem val f2.
Proof. exact faithful_partial_needs_nonempty. Qed.
Print Assumptions C17_faithful_partial_needs_nonempty.

(* non-vacuity *)
Example C17_witness_itemised :
  let m := all_of [AMat (any_of [AVal (VInt 1); AMat (not_ (AVal (VInt 2)))]);
                   AMat (not_ (AMat (has_item (AMat (greater_than (VInt 3))))));
                   AMat (has_entry (VStr [107%N]) (Some (AMat (not_ (AMat is_none)))))] in
  snd (describe_st not_of_source m fresh) = fresh /\
  has_newline (describe not_of_source m) = true /\
  describe not_of_source (not_ (AMat (not_ (AMat m)))) = describe not_of_source m.
Proof. vm_compute. repeat split. Qed.

Example C17_witness_tokens :
  let a := FL (Lit 0 false) in let b := FL (Lit 1 true) in let c := FL (Lit 2 false) in
  let e1 := FAllN [FAnyN [a; b]; c] in let e2 := FAnyN [a; FAllN [b; c]] in
  fexpr_wf e1 = true /\ fexpr_wf e2 = true /\
  render (fun _ => true) e1 = DItems [(None, DLine [TLit (Lit 0 false); TOr; TLit (Lit 1 true)]); (Some TAnd, DLine [TLit (Lit 2 false)])] /\
  render (fun _ => true) e1 <> render (fun _ => true) e2 /\
  fsem (fun i => Nat.eqb i 0) e1 = false /\ fsem (fun i => Nat.eqb i 0) e2 = true.
Proof. repeat split; try reflexivity. discriminate. Qed.
