(* C17 — A check's description says what was actually verified.
   Only statements here; proofs are in Proofs/DescribeP.v; the model is Model/Describe.v (over Model/Matcher.v).
   `not_of_source` (gen/TablesMatchers.v) is how composites.Not.build_description is written in the source now, and
   `comp_of_source` (Model/Describe.v over gen/TablesMatchers.v) the relationship words all_of / any_of use under a positive
   and a negative transformer in the source now: the theorems are stated for them, so they are re-checked against the code
   on every run (they do not compile for a source without fixes/F09a-*.patch, fixes/F09b-*.patch or fixes/F23-*.patch);
   `comp_of_source` also says whether the single-line layout recognises a composite operand behind not_ / a description-less
   wrapper (composites._is_composite, fixes/F23-*.patch).  comp_pre_f9b and comp_pre_f23 are the labelled pre-fix variants. *)
From Coq Require Import List Bool NArith ZArith.
Import ListNotations.
From LCC Require Import Base.Util Model.PyVal Model.Matcher gen.TablesMatchers Model.Describe Proofs.DescribeP
     Model.OpsIn Model.OpsInDescribe Proofs.OpsInDescribeP.

(* No build_description, at any nesting depth, leaves the transformer object it received different from how it found it. *)
Theorem C17_transformer_preserved : forall (m : matcher) (t : transf), snd (describe_st not_of_source comp_of_source m t) = t.
Proof. exact (transformer_preserved comp_of_source). Qed.
Print Assumptions C17_transformer_preserved.

(* Hence the wording of an operand of all_of / any_of does not depend on its siblings: the composite's description is the
   layout (single line, or itemised under the 100-character / newline / composite-operand rules) of the descriptions the
   operands have on their own under the same transformer settings, joined by the composite's relationship word for these
   settings (rel_all / rel_any: "and" / "or", exchanged under a negative transformer). *)
Theorem C17_sibling_independent : forall ms t,
  describe_st not_of_source comp_of_source (AllOf ms) t =
    (layout comp_of_source ms (rel_all comp_of_source t) (map (fun m => fst (describe_st not_of_source comp_of_source m t)) ms), t) /\
  describe_st not_of_source comp_of_source (AnyOf ms) t =
    (layout comp_of_source ms (rel_any comp_of_source t) (map (fun m => fst (describe_st not_of_source comp_of_source m t)) ms), t).
Proof. exact (sibling_independent comp_of_source). Qed.
Print Assumptions C17_sibling_independent.

(* not_(not_(m)) is described exactly like m *)
Theorem C17_double_negation : forall m t,
  describe_st not_of_source comp_of_source (Not (Not m)) t = describe_st not_of_source comp_of_source m t.
Proof. exact (double_negation_wording comp_of_source). Qed.
Print Assumptions C17_double_negation.

(* negation in the wording follows negation in the logic: not_(m) is described as m with the negation flag of the
   transformer flipped, and accepts exactly the opposite; and (De Morgan: F9b and F23 repaired) for EVERY operand list
   not_(all_of ms) is described exactly like any_of (map not_ ms) and accepts the same values, dually for any_of.
   (Before fixes/F23 the equality of the descriptions needed "no operand is itself an all_of / any_of object":
   C17_negation_de_morgan_composite_operand_unfixed_refuted.) *)
Theorem C17_negation_follows_logic : forall m ms t v,
  fst (describe_st not_of_source comp_of_source (Not m) t) = fst (describe_st not_of_source comp_of_source m (flip t)) /\
  truth (matches (Not m) v) = rmap negb (truth (matches m v)) /\
  describe_st not_of_source comp_of_source (Not (AllOf ms)) t = describe_st not_of_source comp_of_source (AnyOf (map Not ms)) t /\
  describe_st not_of_source comp_of_source (Not (AnyOf ms)) t = describe_st not_of_source comp_of_source (AllOf (map Not ms)) t /\
  truth (matches (Not (AllOf ms)) v) = truth (matches (AnyOf (map Not ms)) v) /\
  truth (matches (Not (AnyOf ms)) v) = truth (matches (AllOf (map Not ms)) v).
Proof. exact negation_follows_logic. Qed.
Print Assumptions C17_negation_follows_logic.

(* what that description is: the layout of the descriptions of the negated operands joined by the word of the dual composite;
   for the layout an operand counts as a composite whether it is negated or not (composites._is_composite) *)
Theorem C17_negation_de_morgan_layout : forall ms t,
  let ds := map (fun m => fst (describe_st not_of_source comp_of_source (Not m) t)) ms in
  describe_st not_of_source comp_of_source (Not (AllOf ms)) t = (layout comp_of_source ms (rel_any comp_of_source t) ds, t) /\
  describe_st not_of_source comp_of_source (Not (AnyOf ms)) t = (layout comp_of_source ms (rel_all comp_of_source t) ds, t) /\
  existsb (composite_operand comp_of_source) (map Not ms) = existsb (composite_operand comp_of_source) ms.
Proof. exact negation_de_morgan_layout. Qed.
Print Assumptions C17_negation_de_morgan_layout.

(* a wrapper that keeps the description (hide_result_details()) changes neither the wording of what it wraps nor how its
   parent lays it out *)
Theorem C17_wrapper_transparent : forall m h t,
  describe_st not_of_source comp_of_source (Wrapper m None h) t = describe_st not_of_source comp_of_source m t /\
  composite_operand comp_of_source (Wrapper m None h) = composite_operand comp_of_source m /\
  composite_operand comp_of_source (Not m) = composite_operand comp_of_source m.
Proof. exact wrapper_and_not_transparent. Qed.
Print Assumptions C17_wrapper_transparent.

(* F9a (DESIGN section 6): with Not.build_description written `transformation.negative = True` on the shared object,
   sibling independence and double negation are false: all_of(is_not_none(), greater_than(0)) words its second operand in the
   negative and hands a modified transformer back; not_(not_(m)) is worded like not_(m). (Statements about the pre-fix variant
   of the model, NotMutates with the composites of that time; fixes/F09a-*.patch turns the source into the NotFresh variant.) *)
Theorem C17_sibling_independent_mutating_refuted : exists ms t,
  fst (describe_st NotMutates comp_pre_f9b (AllOf ms) t) <>
    layout comp_pre_f9b ms (rel_all comp_pre_f9b t) (map (fun m => fst (describe_st NotMutates comp_pre_f9b m t)) ms) /\
  snd (describe_st NotMutates comp_pre_f9b (AllOf ms) t) <> t.
Proof. exact sibling_independent_mutating_refuted. Qed.
Print Assumptions C17_sibling_independent_mutating_refuted.

Theorem C17_double_negation_mutating_refuted : exists m v,
  fst (describe_st NotMutates comp_pre_f9b (Not (Not m)) fresh) = fst (describe_st NotMutates comp_pre_f9b (Not m) fresh) /\
  accepts (Not (Not m)) v = true /\ accepts (Not m) v = false.
Proof. exact double_negation_mutating_refuted. Qed.
Print Assumptions C17_double_negation_mutating_refuted.

(* F9b (DESIGN section 6), repaired by fixes/F09b-*.patch: with one relationship word per composite whatever the transformer
   (comp_pre_f9b, the pre-fix variant of the model) not_(all_of(a, b)) is described like all_of(not_(a), not_(b)) -- every operand
   negated, the connective still "and" -- although they accept different values.  The source as it is now (comp_of_source)
   tells the same pair apart (last conjunct); in general see C17_negation_follows_logic. *)
Theorem C17_faithful_negated_composite_unfixed_refuted : exists m1 m2 v,
  describe NotFresh comp_pre_f9b m1 = describe NotFresh comp_pre_f9b m2 /\ accepts m1 v = true /\ accepts m2 v = false /\
  describe NotFresh comp_of_source m1 <> describe NotFresh comp_of_source m2.
Proof. exact faithful_negated_composite_unfixed_refuted. Qed.
Print Assumptions C17_faithful_negated_composite_unfixed_refuted.

(* F23 (DESIGN section 6), repaired by fixes/F23-*.patch: with the single-line layout testing the operand OBJECT
   (comp_pre_f23, the pre-fix variant of the model: De Morgan words, isinstance test) a composite behind not_() or behind
   hide_result_details() was not recognised by the composite holding it and was joined on its parent's line without grouping.
   Three witnesses; in each the source as it is now (comp_of_source) behaves as it should (last conjunct):
   - De Morgan in the wording failed for an operand that is itself a composite: not_(all_of(a, any_of(b, c))) was itemised,
     any_of(not_(a), not_(any_of(b, c))) fitted on one line;
   - a and (not b or not c)  read like  (a and not b) or not c;
   - (1 or 2) and 3  read like  1 or (2 and 3)  with the inner composites behind hide_result_details(). *)
Theorem C17_negation_de_morgan_composite_operand_unfixed_refuted : exists ms,
  describe NotFresh comp_pre_f23 (Not (AllOf ms)) <> describe NotFresh comp_pre_f23 (AnyOf (map Not ms)) /\
  describe NotFresh comp_of_source (Not (AllOf ms)) = describe NotFresh comp_of_source (AnyOf (map Not ms)).
Proof. exact de_morgan_composite_operand_unfixed_refuted. Qed.
Print Assumptions C17_negation_de_morgan_composite_operand_unfixed_refuted.

Theorem C17_faithful_negated_operand_unfixed_refuted : exists m1 m2 v,
  describe NotFresh comp_pre_f23 m1 = describe NotFresh comp_pre_f23 m2 /\ accepts m1 v = true /\ accepts m2 v = false /\
  describe NotFresh comp_of_source m1 <> describe NotFresh comp_of_source m2.
Proof. exact faithful_negated_operand_unfixed_refuted. Qed.
Print Assumptions C17_faithful_negated_operand_unfixed_refuted.

Theorem C17_faithful_wrapped_composite_unfixed_refuted : exists m1 m2 v,
  describe NotFresh comp_pre_f23 m1 = describe NotFresh comp_pre_f23 m2 /\ accepts m1 v = true /\ accepts m2 v = false /\
  describe NotFresh comp_of_source m1 <> describe NotFresh comp_of_source m2.
Proof. exact faithful_wrapped_composite_unfixed_refuted. Qed.
Print Assumptions C17_faithful_wrapped_composite_unfixed_refuted.

(* Full faithfulness would be:  forall m1 m2, describe m1 = describe m2 -> forall v, accepts m1 v = accepts m2 v.
   It is still false of the code (open known findings; each witness is replayed on the implementation by the check):
   all_of() and any_of() are both ":"; dict keys lose their type in json.dumps; the scope of a container inside a conjugated
   sentence (F25). *)
Theorem C17_faithful_refuted_empty_composite : exists m1 m2 v,
  describe not_of_source comp_of_source m1 = describe not_of_source comp_of_source m2 /\ accepts m1 v = true /\ accepts m2 v = false.
Proof. exact faithful_refuted_empty_composite. Qed.
Print Assumptions C17_faithful_refuted_empty_composite.

Theorem C17_faithful_refuted_dict_key : exists m1 m2 v,
  describe not_of_source comp_of_source m1 = describe not_of_source comp_of_source m2 /\ accepts m1 v = true /\ accepts m2 v = false.
Proof. exact faithful_refuted_dict_key. Qed.
Print Assumptions C17_faithful_refuted_dict_key.

(* F25 (open): inside a conjugating container the scope of an inner container is lost -- has_item(has_entry("a", any_of(1,
   is_integer()))) and has_item(any_of(has_entry("a", 1), is_integer())) share the description
   `to have an item whose value has entry "a" that is equal to 1 or is an integer` and disagree on [5] *)
Theorem C17_faithful_refuted_container_scope : exists m1 m2 v,
  describe not_of_source comp_of_source m1 = describe not_of_source comp_of_source m2 /\ accepts m1 v = true /\ accepts m2 v = false.
Proof. exact faithful_refuted_container_scope. Qed.
Print Assumptions C17_faithful_refuted_container_scope.

(* What is proved of faithfulness (partial): at TOKEN level.  Leaf wordings and their negative forms are opaque tokens
   (a literal = a leaf matcher in its positive or negative form), "and" / "or" / ":" / "-" are tokens, and the indentation of
   the itemised form is read as structure (doc).  For expressions built from literals with non-empty all_of / any_of and with
   not_ ANYWHERE (FNotN), nested to any depth, described under either setting of the transformer's negation flag (b1, b2) as the
   repaired code does -- not_ flips the flag, every composite takes the De Morgan connective of the flag it receives, every
   literal the form of the flag it receives, and a composite with an operand that is a composite, also behind not_, is
   itemised -- with one line or items chosen by whatever decision the length rule takes (`single`), the description determines
   the verdicts: two expressions with the same rendering accept the same values, whatever the leaves mean (val).
   (hide_result_details() is transparent to wording and layout, C17_wrapper_transparent: at this level it is the expression
   it wraps.)
   MISSING for the full statement (and false in general, see the refuted theorems above): empty composites,
   override_description, the sub-descriptions of has_item / has_entry / ..., and the step from strings to tokens (a user string
   containing " and " or a newline is not a token boundary; string-level injectivity is not claimed). *)
Theorem C17_faithful_partial : forall (s1 s2 : bool -> list fexpr -> bool) (b1 b2 : bool) (e1 e2 : fexpr),
  fexpr_wf e1 = true -> fexpr_wf e2 = true ->
  render_under s1 b1 e1 = render_under s2 b2 e2 ->
  forall val : nat -> bool, xorb b1 (fsem val e1) = xorb b2 (fsem val e2).
Proof. exact faithful_partial_negated. Qed.
Print Assumptions C17_faithful_partial.

(* its instance for the description of a check (MatcherDescriptionTransformer(): flag off, `render`) *)
Theorem C17_faithful_partial_positive : forall (s1 s2 : list fexpr -> bool) (e1 e2 : fexpr),
  fexpr_wf e1 = true -> fexpr_wf e2 = true ->
  render s1 e1 = render s2 e2 ->
  forall val : nat -> bool, fsem val e1 = fsem val e2.
Proof. exact faithful_partial_nested. Qed.
Print Assumptions C17_faithful_partial_positive.

(* the non-emptiness hypothesis is needed: all_of() / any_of() *)
Theorem C17_faithful_partial_needs_nonempty : exists s f1 f2 val,
  render_flat s f1 = render_flat s f2 /\ flat_sem val f1 <> flat_sem val f2.
Proof. exact faithful_partial_needs_nonempty. Qed.
Print Assumptions C17_faithful_partial_needs_nonempty.

(* non-vacuity *)
Example C17_witness_itemised :
  let m := all_of [AMat (any_of [AVal (VInt 1); AMat (not_ (AVal (VInt 2)))]);
                   AMat (not_ (AMat (has_item (AMat (greater_than (VInt 3))))));
                   AMat (has_entry (VStr [107%N]) (Some (AMat (not_ (AMat is_none)))))] in
  snd (describe_st not_of_source comp_of_source m fresh) = fresh /\
  has_newline (describe not_of_source comp_of_source m) = true /\
  describe not_of_source comp_of_source (not_ (AMat (not_ (AMat m)))) = describe not_of_source comp_of_source m.
Proof. vm_compute. repeat split. Qed.

(* De Morgan on concrete operands: on a single line, itemised (more than 100 characters), and with an operand that is itself
   a composite (d) *)
Example C17_witness_de_morgan :
  let a := greater_than (VInt 0) in let b := less_than (VInt 10) in let c := equal_to (VInt 100000000000000000000000000000000000000000000000000000000000000000000) in
  let d := AnyOf [b; equal_to (VInt 5)] in
  describe not_of_source comp_of_source (Not (AllOf [a; d])) = describe not_of_source comp_of_source (AnyOf [Not a; Not d]) /\
  has_newline (describe not_of_source comp_of_source (AnyOf [Not a; Not d])) = true /\
  has_newline (describe not_of_source comp_of_source (AllOf [a; hide_result_details d])) = true /\
  describe not_of_source comp_of_source (Not (AllOf [a; b])) = describe not_of_source comp_of_source (AnyOf [Not a; Not b]) /\
  has_newline (describe not_of_source comp_of_source (Not (AllOf [a; b]))) = false /\
  describe not_of_source comp_of_source (Not (AnyOf [a; b; c])) = describe not_of_source comp_of_source (AllOf [Not a; Not b; Not c]) /\
  has_newline (describe not_of_source comp_of_source (Not (AnyOf [a; b; c]))) = true /\
  describe not_of_source comp_of_source (Not (AllOf [a; b])) <> describe not_of_source comp_of_source (AllOf [Not a; Not b]) /\
  rel_all comp_of_source (flip fresh) = rel_or /\ rel_any comp_of_source (flip fresh) = rel_and.
Proof. vm_compute. repeat split. intro H. discriminate H. Qed.

Example C17_witness_tokens :
  let a := FL (Lit 0 false) in let b := FL (Lit 1 true) in let c := FL (Lit 2 false) in
  let e1 := FAllN [FAnyN [a; b]; c] in let e2 := FAnyN [a; FAllN [b; c]] in
  fexpr_wf e1 = true /\ fexpr_wf e2 = true /\
  render (fun _ => true) e1 = DItems [(None, DLine [TLit (Lit 0 false); TOr; TLit (Lit 1 true)]); (Some TAnd, DLine [TLit (Lit 2 false)])] /\
  render (fun _ => true) e1 <> render (fun _ => true) e2 /\
  fsem (fun i => Nat.eqb i 0) e1 = false /\ fsem (fun i => Nat.eqb i 0) e2 = true /\
  (* not_(all_of(a, not b)) on one line: "not a or b" *)
  render_under (fun _ _ => true) true (FAllN [a; b]) = DLine [TLit (Lit 0 true); TOr; TLit (Lit 1 false)] /\
  render_under (fun _ _ => true) true (FAllN [a; b]) = render_under (fun _ _ => true) false (FAnyN [FL (Lit 0 true); FL (Lit 1 false)]) /\
  render_under (fun _ _ => true) true (FAllN [a; b]) <> render_under (fun _ _ => true) false (FAllN [FL (Lit 0 true); FL (Lit 1 false)]) /\
  (* all_of(a, not_(all_of(b, c))): the negated composite is itemised under its parent, "- a  - and: - not b - or not c" *)
  render (fun _ => true) (FAllN [a; FNotN (FAllN [FL (Lit 1 false); c])]) =
    DItems [(None, DLine [TLit (Lit 0 false)]); (Some TAnd, DLine [TLit (Lit 1 true); TOr; TLit (Lit 2 true)])] /\
  (* all_of(a, not_(not_(b))) stays on one line *)
  render (fun _ => true) (FAllN [a; FNotN (FNotN b)]) = DLine [TLit (Lit 0 false); TAnd; TLit (Lit 1 true)] /\
  fexpr_wf (FAllN [a; FNotN (FAllN [FL (Lit 1 false); c])]) = true.
Proof. repeat split; try reflexivity; discriminate. Qed.

(* ---- the dict operations check_that_in / require_that_in / assert_that_in: the sentence of the check recorded for one
   (key path, matcher) pair (operations._HasEntry.build_description; Model/OpsInDescribe.v, compared string by string with the
   sentences a real test records on every run). ---- *)

(* the value matcher is worded exactly as check_that would word it — a fresh transformer, so neither conjugated nor negated,
   whatever came before — after the key path *)
Theorem C17_in_description_shape : forall ni cw p m,
  in_matcher_description ni cw (p, m) = join path_sep (map jsonify p) ++ space ++ describe ni cw m.
Proof. exact in_description_shape. Qed.
Print Assumptions C17_in_description_shape.

(* hence two dict checks on the same key path have the same sentence exactly when check_that gives their value matchers the
   same sentence: faithfulness of the dict operations reduces to that of the plain ones *)
Theorem C17_in_description_same_path : forall ni cw p m1 m2,
  in_log_description ni cw (p, m1) = in_log_description ni cw (p, m2) <-> describe ni cw m1 = describe ni cw m2.
Proof. exact in_log_description_same_path. Qed.
Print Assumptions C17_in_description_same_path.

(* and the wording of a pair does not depend on its sibling pairs *)
Theorem C17_in_description_sibling_independent : forall ni cw before after y,
  nth_error (map (in_log_description ni cw) (before ++ y :: after)) (length before) = Some (in_log_description ni cw y).
Proof. exact in_description_sibling_independent. Qed.
Print Assumptions C17_in_description_sibling_independent.
