(* C08 — Abort, stop-on-failure and Ctrl-C stop new work, keep teardowns and the report.
   Statements only. Decisions: Model/Sched.v (handle_task + RunContext.is_task_to_be_skipped), for every graph, thread
   count and interleaving; what an exception does inside a task: Model/TaskSem.v. Proofs: SchedP.v, ProtocolP.v, VerdictP.v. *)
From Coq Require Import List Arith Bool.
Import ListNotations.
From LCC Require Import Base.Util Model.Proj Model.Sched Model.Fixture Model.TaskSem Model.TaskSemEq
     Proofs.SchedP Proofs.ProtocolP Proofs.VerdictP Proofs.TeardownOrderP Proofs.AbortP.

(* Context flags only ever go up during a run ... *)
Theorem C08_flags_monotone : forall g n sof ms s s', run g n sof s ms = Some s' -> ctx_le (cx s) (cx s').
Proof. exact run_ctx_le. Qed.
Print Assumptions C08_flags_monotone.

(* ... and once AbortAllTests has been handled, the tests have been interrupted, a backend has failed
   or something failed under --stop-on-failure, no task taken afterwards is run: it is skipped with a reason.
   (Teardown and suite begin/end tasks do their work when skipped, so teardowns still happen and the report is completed.) *)
Theorem C08_no_new_work_after_stop : forall g sof s t j,
  stop_requested sof (cx s) -> decide g sof s t j <> Run.
Proof. exact no_run_after_stop. Qed.
Print Assumptions C08_no_new_work_after_stop.

Theorem C08_stop_stays_requested : forall sof a b, ctx_le a b -> stop_requested sof a -> stop_requested sof b.
Proof. exact stop_requested_mono. Qed.
Print Assumptions C08_stop_stays_requested.

(* AbortSuite: the not-yet-started tests of that suite — the tests whose parent is the aborted suite, not those of its
   sub-suites — are skipped *)
Theorem C08_abort_suite : forall g sof s t,
  t_kind (get_task g t) = KTest -> In (parent_path (t_path (get_task g t))) (c_aborted_suites (cx s)) ->
  decide g sof s t JHandle <> Run.
Proof. exact no_run_in_aborted_suite. Qed.
Print Assumptions C08_abort_suite.

(* a keyboard interrupt raises the abort flag; the remaining tasks are then skipped, and the run still terminates with
   every task completed exactly once (C01_no_deadlock / C01_terminates / C01_each_task_exactly_once hold for every move
   sequence, including those containing MInterrupt) *)
Theorem C08_interrupt : forall g n sof s s',
  step g n sof s MInterrupt = Some s' -> c_tasks_aborted (cx s') = true /\ pc s' <> PLoop.
Proof. exact interrupt_sets_abort. Qed.
Print Assumptions C08_interrupt.

(* In all cases teardowns run after their consumers: after an interrupt, too, a task is only dispatched when everything it
   depends on is completed (the order theorem of C03 without the no_interrupt hypothesis) *)
Theorem C08_teardowns_after_consumers : forall g n sof ms1 t md ms2 s d,
  1 <= n ->
  run g n sof (init g n) (ms1 ++ MTake t md :: ms2) = Some s ->
  In d (all_deps (get_task g t)) ->
  count (is_main d) ms1 = 1 /\ count (is_finish d) ms1 = 1.
Proof. exact take_after_dependencies. Qed.
Print Assumptions C08_teardowns_after_consumers.

(* an exception of any kind raised by a body, a hook or a fixture ends that piece of code only, is turned into an error
   log (so the test is failed) and the teardowns kept so far still run: the result of a test that raised is TaskFailure *)
Theorem C08_abort_test_fails_the_test : forall env p suite t hk fxs,
  let o := test_run env p suite t hk fxs in
  to_res o <> TkDied -> (to_res o = TkFailure <-> out_fails o = true).
Proof. intros env p suite t hk fxs o H. apply (test_run_verdict env p suite t hk fxs H). Qed.
Print Assumptions C08_abort_test_fails_the_test.

(* non-vacuity: AbortSuite raised by setup_test aborts the suite (flag raised), the test is failed and its body is not
   executed; AbortTest raised by the body fails the test, the rest of the body is not executed and teardown_test still runs *)
Example C08_witness :
  let t := mkTest 7 false [] [] [] [ARaise ExcAbortTest; ALog 1 1] in
  let o1 := test_run (fun _ => IAbsent) [5; 7] [5] t (mkHooks None None (Some [ARaise ExcAbortSuite]) None) [] in
  let o2 := test_run (fun _ => IAbsent) [5; 7] [5] t (mkHooks None None None (Some [ALog 1 9])) [] in
  to_res o1 = TkFailure /\
  existsb (atom_eqb (AtFlag (FAbortedSuite [5]))) (to_main o1) = true /\
  existsb (atom_eqb (AtBegin (OBody [5; 7]))) (to_main o1) = false /\
  to_res o2 = TkFailure /\
  existsb (atom_eqb (AtBegin (OTeardownTest [5; 7]))) (to_main o2) = true /\
  existsb (atom_eqb (AtFire (RLog (LTest [5; 7]) (Some (SdTest 7)) [] 1 (MUser (OBody [5; 7]) [] 1)))) (to_main o2) = false.
Proof. vm_compute. repeat split; reflexivity. Qed.

(* "AbortTest ends only the current test (the rest of its body is not executed, its teardowns run ...)" — and so does any
   exception, in any piece of user code: whatever follows a raise in a script is not executed (the whole task is the same as
   if the script stopped there) ... *)
Theorem C08_nothing_after_a_raise : forall env p suite n dis deps args params pre k post hk fxs,
  test_run env p suite (mkTest n dis deps args params (pre ++ ARaise k :: post)) hk fxs =
  test_run env p suite (mkTest n dis deps args params (pre ++ [ARaise k])) hk fxs.
Proof. exact test_run_nothing_after_a_raise. Qed.
Print Assumptions C08_nothing_after_a_raise.
Theorem C08_nothing_after_a_raise_in_any_code : forall o env pre k post s failed children,
  run_script o env (pre ++ ARaise k :: post) s failed children = run_script o env (pre ++ [ARaise k]) s failed children.
Proof. exact run_script_nothing_after_a_raise. Qed.
Print Assumptions C08_nothing_after_a_raise_in_any_code.

(* ... and the teardowns run whatever the body does — AbortTest, AbortSuite, AbortAllTests, any Exception, failed checks,
   threads — unless a BaseException killed the worker: once the body has been entered, every teardown of the test (the
   generator fixtures in reverse order of setup, then teardown_test) is entered after it, each once *)
Theorem C08_teardowns_run_whatever_the_body_does : forall env p suite t hk fxs,
  to_res (test_run env p suite t hk fxs) <> TkDied ->
  In (OBody p) (begins (to_main (test_run env p suite t hk fxs))) ->
  exists before, begins (to_main (test_run env p suite t hk fxs)) =
    before ++ [OBody p] ++ rev (teardowns_of (map snd (test_pairs p hk fxs))).
Proof. exact teardowns_run_whatever_the_body_does. Qed.
Print Assumptions C08_teardowns_run_whatever_the_body_does.
