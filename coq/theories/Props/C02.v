(* C02 — Verdicts are sound. Statements only; proofs in Proofs/VerdictP.v, Proofs/ProtocolP.v, Proofs/SchedP.v.
   Model: Model/TaskSem.v (what a task emits and how it ends), for EVERY project, script (= every placement and kind of
   failure, successful logs and checks interleaved, user threads) and every decision of the dispatcher. *)
From Coq Require Import List Arith Bool.
Import ListNotations.
From LCC Require Import Base.Util Model.Proj Model.Sched Model.Fixture Model.TaskSem Model.TaskSemEq
     Proofs.ProtocolP Proofs.VerdictP Proofs.SchedP Proofs.TeardownOrderP.
From LCC Require Model.Report Model.Events Model.Writer Proofs.WriterFilingP.

(* A test that is executed ends with TaskFailure (hence is reported failed, marks its location failed and makes its
   dependents skip) if and only if one of its threads put a failing event (error log / failed check) on the event queue;
   every exception raised by its body, hooks or fixtures is turned into such an error log (handle_exception).
   It ends with Success if and only if no failing event was emitted. *)
Theorem C02_test_failed_iff_failing_event : forall env p suite t hk fxs,
  let o := test_run env p suite t hk fxs in
  to_res o <> TkDied ->
  (to_res o = TkFailure <-> out_fails o = true) /\ (to_res o = TkSuccess <-> out_fails o = false).
Proof. exact test_run_verdict. Qed.
Print Assumptions C02_test_failed_iff_failing_event.

(* the same for session and suite setup phases *)
Theorem C02_setup_failed_iff_failing_event : forall env l start end_ is_start d pairs,
  failing_event start = false -> failing_event end_ = false ->
  let o := setup_phase env l start end_ is_start d pairs in
  to_res o <> TkDied ->
  (to_res o = TkFailure <-> out_fails o = true) /\ (to_res o = TkSuccess <-> out_fails o = false).
Proof. exact setup_phase_verdict. Qed.
Print Assumptions C02_setup_failed_iff_failing_event.

(* a script marks its location failed exactly when a failing event was emitted by its thread or by a thread it started:
   the invariant behind the two theorems above, for every script *)
Theorem C02_script_failed_iff : forall o tp env sc x,
  verdict_inv x -> vgood x -> verdict_inv (interp o tp env sc x) /\ vgood (interp o tp env sc x).
Proof. exact interp_verdict. Qed.
Print Assumptions C02_script_failed_iff.

(* the dispatcher runs a task only if every on-success dependency ended with Success: a failed setup or a failed test
   dependency can never be followed by the execution of its dependents (the task result is the one of the theorems above) *)
Theorem C02_dependents_see_the_verdict : forall g sof s t,
  decide g sof s t JHandle = Run -> forall d, In d (t_succ (get_task g t)) -> result_of s d = Some ResSuccess.
Proof. exact run_only_if_dependencies_succeeded. Qed.
Print Assumptions C02_dependents_see_the_verdict.

(* non-vacuity: a body with a failed check inside a spawned thread fails the test; the same body without it passes *)
Example C02_witness :
  let hk := mkHooks None None None None in
  let t1 := mkTest 7 false [] [] [] [ALog 1 1; ASpawn [ACheck false 2]; AJoin; ALog 1 3] in
  let t2 := mkTest 7 false [] [] [] [ALog 1 1; ASpawn [ACheck true 2]; AJoin; ALog 1 3] in
  to_res (test_run (fun _ => IAbsent) [5; 7] [5] t1 hk []) = TkFailure /\
  to_res (test_run (fun _ => IAbsent) [5; 7] [5] t2 hk []) = TkSuccess.
Proof. split; vm_compute; reflexivity. Qed.

(* ---- the report writer (Model/Writer.v = reporting/writer.py ReportWriter, tied to the code by C18's correspondence) ----
   the status written into the report: for ANY writer state and any End event the writer accepts (test end, suite / session
   setup end, suite / session teardown end) the result gets an end time and the status passed or failed, passed exactly
   when Result.is_successful() holds of what was recorded, and nothing else in the report changes ... *)
Module WriterLevel.
Import Report Events Writer WriterFilingP.

Theorem C02_report_status_sound : forall w e w' loc t, apply w e = Ok w' -> end_of e = Some (loc, t) ->
  exists r r', get_result w loc = Some r /\ get_result w' loc = Some r' /\
    r_steps r' = r_steps r /\ r_start r' = r_start r /\ r_end r' = Some t /\ r_status_details r' = r_status_details r /\
    (r_status r' = Some s_passed \/ r_status r' = Some s_failed) /\
    (r_status r' = Some s_passed <-> result_successful r = true) /\
    (r_status r' = Some s_failed <-> result_successful r = false) /\
    (forall l, l <> loc -> get_result w' l = get_result w l) /\ w_active w' = w_active w.
Proof. exact status_sound. Qed.
Print Assumptions C02_report_status_sound.

(* ... and for a result that was not finalised before, is_successful() is "no error log and no failed check among the
   recorded logs": reported passed iff every recorded log is successful, failed iff one is not *)
Theorem C02_report_status_from_logs : forall w e w' loc t, apply w e = Ok w' -> end_of e = Some (loc, t) ->
  exists r r', get_result w loc = Some r /\ get_result w' loc = Some r' /\ logs_of r' = logs_of r /\
    ((r_status r = None \/ r_status r = Some []) ->
       (r_status r' = Some s_passed <-> forall lg, In lg (logs_of r) -> log_successful lg = true) /\
       (r_status r' = Some s_failed <-> exists lg, In lg (logs_of r) /\ log_successful lg = false)).
Proof. exact status_from_logs. Qed.
Print Assumptions C02_report_status_from_logs.
End WriterLevel.

(* teardowns cannot turn a failed test into a passed one: a failure recorded by a setup or by the body is still recorded after
   every teardown function has run, whatever the teardowns do (Model/TaskSem.v run_teardown_funcs; the flag is what the task
   result and, through the events, the report status are computed from) *)
Theorem C02_teardowns_never_clear_a_failure : forall env suite kept r,
  rs_failed r = true -> rs_failed (run_teardown_funcs env suite kept r) = true.
Proof. exact teardowns_never_clear_a_failure. Qed.
Print Assumptions C02_teardowns_never_clear_a_failure.
